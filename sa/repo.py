"""
Source loading and resolution (A0): module table, class table with MRO, method
resolution, helpers to find anchors by role.

Nothing from cutadapt is imported or executed.  The repository root is
``$VERIF_REPO`` (default /repo); ``overrides`` maps a path relative to
``src/cutadapt`` to replacement source text (used by the checker self-test to
analyse in-memory variants; nothing is written into the repository).
"""
from __future__ import annotations

import ast
import hashlib
import os
import pickle

from .core import Unrecognised, VERIF

PKG_REL = "src/cutadapt"
PY_FILES_FLOOR = 17
PYX_FILES = ("_align", "qualtrim", "_kmer_finder", "info")


def repo_root() -> str:
    return os.environ.get("VERIF_REPO", "/repo")


class ModuleInfo:
    def __init__(self, name, relpath, tree, source, kind, signatures=None):
        from .normalise import normalise

        if kind in ("py", "pyx"):
            tree = normalise(tree, typed_locals=(kind == "pyx"), signatures=signatures if kind == "py" else None)
        self.name = name
        self.relpath = relpath  # relative to repo root
        self.tree = tree
        self.source = source
        self.kind = kind  # 'py' | 'pyx' | 'pyi'
        for node in ast.walk(tree):
            for child in ast.iter_child_nodes(node):
                child._parent = node  # type: ignore[attr-defined]
        tree._parent = None  # type: ignore[attr-defined]
        tree._module = self  # type: ignore[attr-defined]
        if kind in ("py", "pyx"):
            from .localroles import apply_registered

            apply_registered(self)


class ClassInfo:
    def __init__(self, name, module: ModuleInfo, node: ast.ClassDef):
        self.name = name
        self.module = module
        self.node = node
        self.base_names = [_base_name(b) for b in node.bases]
        self.methods = {s.name: s for s in node.body if isinstance(s, (ast.FunctionDef, ast.AsyncFunctionDef))}
        self.class_attrs = {}
        for s in node.body:
            if isinstance(s, ast.Assign) and len(s.targets) == 1 and isinstance(s.targets[0], ast.Name):
                self.class_attrs[s.targets[0].id] = s.value
            elif isinstance(s, ast.AnnAssign) and isinstance(s.target, ast.Name) and s.value is not None:
                self.class_attrs[s.target.id] = s.value

    def __repr__(self):
        return f"<class {self.name} in {self.module.relpath}>"


def _base_name(b):
    if isinstance(b, ast.Name):
        return b.id
    if isinstance(b, ast.Attribute):
        return b.attr
    return ast.unparse(b)


class Repo:
    def __init__(self, root: str | None = None, overrides: dict | None = None, base: "Repo | None" = None):
        self.root = root or repo_root()
        self.overrides = overrides or {}
        self.pkgdir = os.path.join(self.root, PKG_REL)
        self.modules: dict[str, ModuleInfo] = {}
        self.stubs: dict[str, ModuleInfo] = {}
        self.classes: dict[str, ClassInfo] = {}
        self.header_source: str | None = None
        self._base = base if (base is not None and base.root == (root or repo_root()) and not base.overrides) else None  # parsed modules of unchanged files are shared
        self.cache: dict = {}  # per-repository memo for rule helpers (never keyed by id(): variants get fresh objects)
        self._load()

    # -- loading -------------------------------------------------------------
    def _read(self, fn):
        if fn in self.overrides:
            return self.overrides[fn]
        with open(os.path.join(self.pkgdir, fn), encoding="utf-8") as f:
            return f.read()

    def _signatures(self, names):
        """name -> positional parameter names, for module-level functions and classes (via __init__) that are defined
        exactly once in the package's .py files; used by normal form N13 to resolve by-keyword vs by-position arguments"""
        seen = {}
        for fn in names:
            if not fn.endswith(".py"):
                continue
            try:
                tree = ast.parse(self._read(fn))
            except (SyntaxError, OSError):
                continue
            for n in tree.body:
                if isinstance(n, ast.FunctionDef):
                    seen.setdefault(n.name, []).append(tuple(a.arg for a in n.args.posonlyargs + n.args.args))
                elif isinstance(n, ast.ClassDef):
                    inits = [m for m in n.body if isinstance(m, ast.FunctionDef) and m.name == "__init__"]
                    seen.setdefault(n.name, []).append(tuple(a.arg for a in inits[0].args.posonlyargs + inits[0].args.args)[1:] if len(inits) == 1 else None)
        return {k: v[0] for k, v in seen.items() if len(v) == 1 and v[0] is not None}

    def _load(self):
        if not os.path.isdir(self.pkgdir):
            raise Unrecognised(f"package directory {self.pkgdir} not found")
        names = sorted(set(os.listdir(self.pkgdir)) | set(self.overrides))
        self.signatures = self._signatures(names)
        if self._base is not None and getattr(self._base, "signatures", None) != self.signatures:
            self._base = None  # a changed signature changes how calls in OTHER files are normalised: nothing can be shared
        for fn in names:
            rel = f"{PKG_REL}/{fn}"
            if self._base is not None and fn not in self.overrides:
                stem, ext = os.path.splitext(fn)
                if ext in (".py", ".pyx") and stem in self._base.modules and self._base.modules[stem].relpath == rel:
                    self.modules[stem] = self._base.modules[stem]
                    continue
                if ext == ".pyi" and stem in self._base.stubs:
                    self.stubs[stem] = self._base.stubs[stem]
                    continue
            if fn.endswith(".py"):
                src = self._read(fn)
                tree = ast.parse(src, filename=rel)
                self.modules[fn[:-3]] = ModuleInfo(fn[:-3], rel, tree, src, "py", self.signatures)
            elif fn.endswith(".pyx"):
                src = self._read(fn)
                tree = self._parse_pyx_cached(fn, src)
                self.modules[fn[:-4]] = ModuleInfo(fn[:-4], rel, tree, src, "pyx")
            elif fn.endswith(".pyi"):
                src = self._read(fn)
                tree = ast.parse(src, filename=rel)
                self.stubs[fn[:-4]] = ModuleInfo(fn[:-4], rel, tree, src, "pyi")
            elif fn == "expected_errors.h":
                self.header_source = self._read(fn)
        npy = sum(1 for m in self.modules.values() if m.kind == "py")
        if npy < PY_FILES_FLOOR:
            raise Unrecognised(f"only {npy} python modules found under {self.pkgdir}, expected >= {PY_FILES_FLOOR}")
        for p in PYX_FILES:
            if p not in self.modules or self.modules[p].kind != "pyx":
                raise Unrecognised(f"Cython module {p}.pyx not found")
        dup = {}
        for m in self.modules.values():
            for node in ast.walk(m.tree):
                if isinstance(node, ast.ClassDef):
                    decos = {d.id for d in node.decorator_list if isinstance(d, ast.Name)}
                    if "__property__" in decos or "__cstruct__" in decos:
                        continue
                    if node.name in self.classes:
                        dup.setdefault(node.name, []).append(m.relpath)
                        continue
                    self.classes[node.name] = ClassInfo(node.name, m, node)
        self.duplicate_classes = dup

    def _parse_pyx_cached(self, fn, src):
        from . import pyxlower

        with open(pyxlower.__file__, "rb") as f:
            lv = f.read()
        digest = hashlib.sha256(src.encode() + b"\0" + lv).hexdigest()[:24]
        cdir = os.path.join(VERIF, ".cache")
        cpath = os.path.join(cdir, f"{fn}.{digest}.pickle")
        if os.path.exists(cpath):
            try:
                with open(cpath, "rb") as f:
                    return pickle.load(f)
            except Exception:  # noqa: BLE001
                pass
        tree = pyxlower.parse_pyx_source(src, fn[:-4], f"{PKG_REL}/{fn}")
        try:
            os.makedirs(cdir, exist_ok=True)
            tmp = cpath + f".{os.getpid()}.tmp"
            with open(tmp, "wb") as f:
                pickle.dump(tree, f)
            os.replace(tmp, cpath)
        except Exception:  # noqa: BLE001
            pass
        return tree

    # -- lookup --------------------------------------------------------------
    def _touch(self, m):
        """remember which source files a property's rules consulted (the thorough tier varies exactly those)"""
        try:
            self.touched.add(os.path.basename(m.relpath))
        except AttributeError:
            self.touched = {os.path.basename(m.relpath)}

    def module(self, name) -> ModuleInfo:
        if name not in self.modules:
            raise Unrecognised(f"module {name} not found")
        self._touch(self.modules[name])
        return self.modules[name]

    def cls(self, name) -> ClassInfo:
        if name not in self.classes:
            raise Unrecognised(f"class {name} not found")
        self._touch(self.classes[name].module)
        return self.classes[name]

    def mro(self, name) -> list[ClassInfo]:
        out, seen = [], set()

        def rec(n):
            if n in seen or n not in self.classes:
                return
            seen.add(n)
            c = self.classes[n]
            out.append(c)
            for b in c.base_names:
                rec(b)

        rec(name)
        return out

    def ancestors(self, name) -> set[str]:
        """All base class names, including ones defined outside the package (ABC, Exception, ...)."""
        out = set()
        todo = [name]
        while todo:
            n = todo.pop()
            if n in self.classes:
                for b in self.classes[n].base_names:
                    if b not in out:
                        out.add(b)
                        todo.append(b)
        return out

    def is_subclass(self, name, base) -> bool:
        return name == base or base in self.ancestors(name)

    def subclasses(self, base, strict=True) -> list[ClassInfo]:
        res = [c for c in self.classes.values() if (c.name != base or not strict) and self.is_subclass(c.name, base)]
        return sorted(res, key=lambda c: (c.module.relpath, c.node.lineno))

    def method(self, cls_name, meth):
        """Resolve a method through the MRO. Returns (ClassInfo, FunctionDef) or (None, None)."""
        for c in self.mro(cls_name):
            if meth in c.methods:
                self._touch(c.module)
                return c, c.methods[meth]
        return None, None

    def need_method(self, cls_name, meth):
        c, f = self.method(cls_name, meth)
        if f is None:
            raise Unrecognised(f"method {cls_name}.{meth} not found")
        return c, f

    def func(self, module, name) -> ast.FunctionDef:
        m = self.module(module)
        for s in m.tree.body:
            if isinstance(s, ast.FunctionDef) and s.name == name:
                return s
        raise Unrecognised(f"function {module}.{name} not found", m.relpath)

    def funcs(self, module) -> dict:
        m = self.module(module)
        return {s.name: s for s in m.tree.body if isinstance(s, ast.FunctionDef)}

    def module_assign(self, module, name):
        m = self.module(module)
        for s in m.tree.body:
            if isinstance(s, ast.Assign) and any(isinstance(t, ast.Name) and t.id == name for t in s.targets):
                return s.value
            if isinstance(s, ast.AnnAssign) and isinstance(s.target, ast.Name) and s.target.id == name:
                return s.value
        raise Unrecognised(f"module-level name {module}.{name} not found", m.relpath)

    def loc(self, node, module: ModuleInfo | None = None) -> str:
        m = module or module_of(node)
        ln = getattr(node, "lineno", 0)
        return f"{m.relpath}:{ln}" if m is not None else f"?:{ln}"

    def all_functions(self):
        """Yield (module, qualname, FunctionDef) for every function/method in the package."""
        for m in self.modules.values():
            self._touch(m)
            yield from _functions_in(m, m.tree, "")


def _functions_in(m, node, prefix):
    for s in ast.iter_child_nodes(node):
        if isinstance(s, (ast.FunctionDef, ast.AsyncFunctionDef)):
            q = prefix + s.name
            yield m, q, s
            yield from _functions_in(m, s, q + ".")
        elif isinstance(s, ast.ClassDef):
            yield from _functions_in(m, s, prefix + s.name + ".")
        elif isinstance(s, (ast.If, ast.Try, ast.With, ast.For, ast.While)):
            yield from _functions_in(m, s, prefix)


def module_of(node) -> ModuleInfo | None:
    n = node
    while n is not None:
        if isinstance(n, ast.Module):
            return getattr(n, "_module", None)
        n = getattr(n, "_parent", None)
    return None


def enclosing(node, kinds):
    n = getattr(node, "_parent", None)
    while n is not None:
        if isinstance(n, kinds):
            return n
        n = getattr(n, "_parent", None)
    return None


def qualname(node) -> str:
    parts = []
    n = node
    while n is not None:
        if isinstance(n, (ast.FunctionDef, ast.ClassDef, ast.AsyncFunctionDef)):
            parts.append(n.name)
        n = getattr(n, "_parent", None)
    return ".".join(reversed(parts))


# ---- small AST helpers -------------------------------------------------------


def src(node) -> str:
    try:
        return ast.unparse(node)
    except Exception:  # noqa: BLE001
        return f"<{type(node).__name__}>"


def chain(node) -> str | None:
    """'self.a.b' for Name/Attribute chains, else None."""
    parts = []
    while isinstance(node, ast.Attribute):
        parts.append(node.attr)
        node = node.value
    if isinstance(node, ast.Name):
        parts.append(node.id)
        return ".".join(reversed(parts))
    return None


def calls(node):
    for n in ast.walk(node):
        if isinstance(n, ast.Call):
            yield n


def call_name(call: ast.Call) -> str | None:
    return chain(call.func)


def walk_no_nested(node):
    """ast.walk that does not descend into nested function/class definitions or lambdas."""
    todo = list(ast.iter_child_nodes(node))
    while todo:
        n = todo.pop()
        yield n
        if isinstance(n, (ast.FunctionDef, ast.AsyncFunctionDef, ast.ClassDef, ast.Lambda)):
            continue
        todo.extend(ast.iter_child_nodes(n))


def const(node):
    if isinstance(node, ast.Constant):
        return node.value
    raise Unrecognised(f"expected a literal constant, found {src(node)}")


def strip_docstring(body):
    if body and isinstance(body[0], ast.Expr) and isinstance(body[0].value, ast.Constant) and isinstance(body[0].value.value, str):
        return body[1:]
    return body


def params(fn: ast.FunctionDef) -> list[str]:
    a = fn.args
    return [x.arg for x in a.posonlyargs + a.args]


def kwonly(fn: ast.FunctionDef) -> list[str]:
    return [x.arg for x in fn.args.kwonlyargs]


def nsrc(text: str) -> str:
    """Normal-form text of a statement/expression given in natural spelling (for comparisons with src() of analysed code)."""
    from .normalise import normalise

    tree = normalise(ast.parse(text))
    if len(tree.body) == 1 and isinstance(tree.body[0], ast.Expr):
        return ast.unparse(tree.body[0].value)
    return ast.unparse(tree)


def call_arguments(repo, call):
    """parameter name -> argument expression of a call to a package function/class named by a plain name, whether the
    argument was written positionally or by keyword (resolved through repo.signatures); unresolved positionals are kept
    under their index"""
    out = {}
    ps = repo.signatures.get(call.func.id) if isinstance(call.func, ast.Name) else None
    for i, a in enumerate(call.args):
        out[ps[i] if ps and i < len(ps) and not isinstance(a, ast.Starred) else i] = a
    for k in call.keywords:
        if k.arg is not None:
            out[k.arg] = k.value
    return out


def expand(fn, expr, depth=6):
    """Def-use expansion for comparing definitions: a copy of expr in which every plain local of fn that is bound by
    exactly ONE statement of the form  name = value  (and is not a parameter, loop target, with-target or augmented)
    is replaced by that value, transitively.  A rule that compares the expanded form does not care whether the
    author named an intermediate value or wrote it in place."""
    import copy

    binds = {}
    for n in ast.walk(fn):
        if isinstance(n, ast.Name) and isinstance(n.ctx, (ast.Store, ast.Del)):
            binds[n.id] = binds.get(n.id, 0) + 1
        elif isinstance(n, ast.arg):
            binds[n.arg] = binds.get(n.arg, 0) + 5
    defs = {}
    for n in ast.walk(fn):
        if isinstance(n, ast.Assign) and len(n.targets) == 1 and isinstance(n.targets[0], ast.Name) and binds.get(n.targets[0].id) == 1:
            defs[n.targets[0].id] = n.value

    def sub(e, d):
        class S(ast.NodeTransformer):
            def visit_Name(self, node):
                if isinstance(node.ctx, ast.Load) and node.id in defs and d > 0:
                    return sub(copy.deepcopy(defs[node.id]), d - 1)
                return node

        return S().visit(e)

    return sub(copy.deepcopy(expr), depth)


def assigning_stmts(fn, target: str):
    """Top-most statements inside fn (if / assignment) that assign the given target chain (after normalisation an
    if/else assigning one target on both branches is a conditional assignment)."""
    out = []
    for n in ast.walk(fn):
        if isinstance(n, (ast.Assign, ast.AnnAssign)):
            ts = n.targets if isinstance(n, ast.Assign) else [n.target]
            if any(chain(t) == target for t in ts):
                # climb to the outermost enclosing if whose branches only assign this target
                top = n
                p = getattr(n, "_parent", None)
                while isinstance(p, ast.If) and all(isinstance(x, (ast.Assign, ast.If, ast.Pass)) for x in p.body + p.orelse):
                    top = p
                    p = getattr(p, "_parent", None)
                if top not in out:
                    out.append(top)
    return out
