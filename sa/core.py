"""
Obligations, reports, evidence files, known findings, exit codes.

An obligation is one rule applied to one construct.  States:
  DISCHARGED  - conclusion established on the current source
  VIOLATED    - construct recognised, conclusion false
  UNRECOGNISED- anchor/shape not found => ANALYSIS-ERROR, exit 2 (never a pass,
                never a violation)
"""
from __future__ import annotations

import hashlib
import json
import os
import sys
import time
import traceback

VERIF = os.path.dirname(os.path.dirname(os.path.abspath(__file__)))
EVIDENCE_DIR = os.path.join(VERIF, "evidence")
REPLAY_DIR = os.path.join(EVIDENCE_DIR, "replay")
KNOWN_FINDINGS = os.path.join(VERIF, "known_findings.json")

DISCHARGED, VIOLATED, UNRECOGNISED = "DISCHARGED", "VIOLATED", "UNRECOGNISED"


class Unrecognised(Exception):
    """Raised by a rule when an anchor or its shape cannot be found/normalised."""

    def __init__(self, what: str, loc: str = ""):
        super().__init__(what)
        self.what = what
        self.loc = loc


class Obligation:
    __slots__ = ("prop", "rule", "construct", "state", "facts", "expected", "loc", "why", "cases", "fact_key")

    def __init__(self, prop, rule, construct, state, facts=None, expected=None, loc="", why="", cases=0, fact_key=None):
        self.prop = prop
        self.rule = rule
        self.construct = construct
        self.state = state
        self.facts = facts
        self.expected = expected
        self.loc = loc
        self.why = why
        self.cases = cases
        self.fact_key = fact_key

    def key(self):
        """Identity used by known_findings.json: rule + construct + normalised fact; never a line number."""
        return (self.prop, self.rule, self.construct, self.fact_key or "")

    def as_json(self):
        return {
            "property": self.prop,
            "rule": self.rule,
            "construct": self.construct,
            "state": self.state,
            "loc": self.loc,
            "facts": self.facts,
            "expected": self.expected,
            "why": self.why,
            "cases": self.cases,
            "fact_key": self.fact_key,
        }


class Report:
    """Collects the obligations of one property run."""

    def __init__(self, prop: str, tier: str):
        self.prop = prop
        self.tier = tier
        self.obligations: list[Obligation] = []
        self.analysed: dict = {"files": set(), "functions": set(), "classes": set(), "call_sites": 0, "paths": 0, "valuations": 0}
        self.assumptions: list[str] = []
        self.trusted: list[str] = []
        self.rules: dict = {}
        self.floors: list = []
        self.notes: list[str] = []
        self.selftest: dict = {}

    # -- registration -------------------------------------------------------
    def rule(self, rid: str, statement: str, breaks: str):
        """Declare a rule: its one-line statement and the sentence 'if this fails then ...'."""
        self.rules[rid] = {"statement": statement, "if_broken": breaks}

    def ob(self, rule, construct, ok, facts=None, expected=None, loc="", why="", cases=1, fact_key=None):
        if ok is not None and not isinstance(ok, bool):
            ok = bool(ok)
        state = DISCHARGED if ok is True else VIOLATED if ok is False else UNRECOGNISED
        o = Obligation(self.prop, rule, construct, state, facts, expected, loc, why, cases, fact_key)
        self.obligations.append(o)
        return o

    def unrecognised(self, rule, construct, why, loc=""):
        return self.ob(rule, construct, None, why=why, loc=loc)

    def floor(self, rule, what, found, minimum):
        """Anti-vacuity: fewer instances than confirmed by hand => analysis error."""
        self.floors.append({"rule": rule, "what": what, "found": found, "min": minimum})
        if found < minimum:
            self.unrecognised(rule, f"floor:{what}", f"only {found} instances of {what} found, expected at least {minimum}")

    def saw(self, *, file=None, function=None, cls=None, call_sites=0, paths=0, valuations=0):
        if file:
            self.analysed["files"].add(file)
        if function:
            self.analysed["functions"].add(function)
        if cls:
            self.analysed["classes"].add(cls)
        self.analysed["call_sites"] += call_sites
        self.analysed["paths"] += paths
        self.analysed["valuations"] += valuations

    def assume(self, text):
        if text not in self.assumptions:
            self.assumptions.append(text)

    def trust(self, text):
        if text not in self.trusted:
            self.trusted.append(text)

    def guard(self, rule, construct, fn, *a, **kw):
        """Run fn; turn Unrecognised/any exception inside one rule into an UNRECOGNISED obligation."""
        try:
            return fn(*a, **kw)
        except Unrecognised as u:
            self.unrecognised(rule, construct, u.what, u.loc)
        except Exception as e:  # noqa: BLE001 - fail closed, but as analysis error
            tb = traceback.format_exc(limit=6)
            self.unrecognised(rule, construct, f"internal error {type(e).__name__}: {e}\n{tb}")
        return None


# ---------------------------------------------------------------------------


def load_known_findings():
    if not os.path.exists(KNOWN_FINDINGS):
        return {"known": [], "fixed": []}
    with open(KNOWN_FINDINGS) as f:
        d = json.load(f)
    d.setdefault("known", [])
    d.setdefault("fixed", [])
    return d


def _matches(entry, o: Obligation):
    return (
        entry.get("property") == o.prop
        and entry.get("rule") == o.rule
        and entry.get("construct") == o.construct
        and entry.get("fact_key", "") == (o.fact_key or "")
    )


def finish(report: Report, wall_s: float, seed: int, write_evidence=True, quiet=False) -> int:
    """Print results, write evidence, return the exit code."""
    kf = load_known_findings()
    violations, known, unrec = [], [], []
    for o in report.obligations:
        if o.state == VIOLATED:
            for e in kf["known"]:
                if _matches(e, o):
                    known.append((o, e))
                    break
            else:
                violations.append(o)
        elif o.state == UNRECOGNISED:
            unrec.append(o)
    out = []
    os.makedirs(REPLAY_DIR, exist_ok=True)
    for o, e in known:
        out.append(f"KNOWN-FINDING: property={o.prop} rule={o.rule} construct={o.construct} {e.get('what', o.why)}")
    replay_paths = []
    for o in violations:
        h = hashlib.sha1(json.dumps(o.key()).encode()).hexdigest()[:12]
        path = os.path.join(REPLAY_DIR, f"{o.prop}-{o.rule.replace('.', '_')}-{h}.json")
        with open(path, "w") as f:
            json.dump(o.as_json(), f, indent=1, default=str)
        replay_paths.append(path)
        out.append(f"VIOLATION property={o.prop} replay={path}")
        out.append(f"  rule={o.rule} construct={o.construct} at {o.loc}")
        out.append(f"  found:    {json.dumps(o.facts, default=str)[:600]}")
        out.append(f"  expected: {json.dumps(o.expected, default=str)[:600]}")
        if o.why:
            out.append(f"  why: {o.why}")
    for o in unrec:
        out.append(f"ANALYSIS-ERROR property={o.prop} rule={o.rule} anchor={o.construct} at {o.loc}: {o.why}")

    n_ob = len(report.obligations)
    n_dis = sum(1 for o in report.obligations if o.state == DISCHARGED)
    if write_evidence:
        ev = evidence_json(report, wall_s, seed, n_ob, n_dis, len(violations), known, unrec)
        os.makedirs(EVIDENCE_DIR, exist_ok=True)
        tmp = os.path.join(EVIDENCE_DIR, f".{report.prop}.json.tmp")
        with open(tmp, "w") as f:
            json.dump(ev, f, indent=1, default=_default)
        os.replace(tmp, os.path.join(EVIDENCE_DIR, f"{report.prop}.json"))
    if not quiet:
        summary = (
            f"{report.prop} [{report.tier}] obligations={n_ob} discharged={n_dis} violated={len(violations)} "
            f"known={len(known)} unrecognised={len(unrec)} rules={len(report.rules)} wall={wall_s:.2f}s"
        )
        print(summary)
        for line in out:
            print(line)
    if violations:
        return 1  # a reported violation stands even if another obligation could not be analysed (its ANALYSIS-ERROR line is printed too)
    if unrec:
        return 2
    return 0


def _default(x):
    if isinstance(x, (set, frozenset)):
        return sorted(x, key=str)
    return str(x)


def evidence_json(report: Report, wall_s, seed, n_ob, n_dis, n_viol, known, unrec):
    samples = []
    seen_rules = set()
    for o in report.obligations:
        if o.rule in seen_rules and len(samples) >= 12:
            continue
        seen_rules.add(o.rule)
        samples.append({k: v for k, v in o.as_json().items() if k in ("rule", "construct", "state", "loc", "facts", "expected", "cases")})
        if len(samples) >= 40:
            break
    evaluations = sum(max(1, o.cases) for o in report.obligations)
    distinct = len({o.key() for o in report.obligations if o.state != UNRECOGNISED})
    rules_txt = "; ".join(f"{rid}: {r['statement']}" for rid, r in sorted(report.rules.items()))
    return {
        "property_id": report.prop,
        "tier": report.tier,
        "seed": seed,
        "level": "other",
        "coverage": {
            "explanation": (
                "Static analysis of /repo's current source (ast for .py, Cython's parser lowered to ast for .pyx, a C-subset parser for expected_errors.h). "
                "Each obligation is one rule applied to one role-resolved construct; it is DISCHARGED, VIOLATED or UNRECOGNISED (analysis error). "
                "The rules are necessary conditions of the property, not the property itself. Rules: " + rules_txt
            ),
            "obligations": n_ob,
            "discharged": n_dis,
            "evaluations": evaluations,
            "distinct_nontrivial": distinct,
            "rule": "one obligation = (rule, construct, normalised fact); evaluations additionally count the abstract valuations / paths / configurations enumerated inside each obligation; distinct = distinct obligation keys that were recognised",
            "samples": samples,
            "exhaustive": True,
            "rules": report.rules,
            "floors": report.floors,
            "analysed": {k: (sorted(v) if isinstance(v, set) else v) for k, v in report.analysed.items()},
            "trusted_base": report.trusted,
            "known_findings_reported": [{"rule": o.rule, "construct": o.construct, "what": e.get("what")} for o, e in known],
            "unrecognised": [{"rule": o.rule, "construct": o.construct, "why": o.why} for o in unrec],
            "selftest": report.selftest,
            "notes": report.notes,
        },
        "assumptions": report.assumptions,
        "wall_s": round(wall_s, 3),
        "violations": n_viol,
    }
