"""A5: the command-line option table, read statically from get_argument_parser()."""
from __future__ import annotations

import ast

from . import constfold
from .core import Unrecognised
from .repo import src

OPT_FLOOR = 69


class Opt:
    def __init__(self, flags, dest, action, type_, default, choices, const, node, nargs):
        self.flags = flags
        self.dest = dest
        self.action = action
        self.type = type_
        self.default = default
        self.choices = choices
        self.const = const
        self.node = node
        self.nargs = nargs

    def __repr__(self):
        return f"Opt({self.flags} -> {self.dest} action={self.action})"


def _dest_from_flags(flags):
    longs = [f for f in flags if f.startswith("--")]
    if longs:
        return longs[0][2:].replace("-", "_")
    shorts = [f for f in flags if f.startswith("-")]
    if shorts:
        return shorts[0][1:]
    return flags[0]


def option_table(repo):
    fn = repo.func("cli", "get_argument_parser")
    opts = []
    for n in ast.walk(fn):
        if isinstance(n, ast.Call) and isinstance(n.func, ast.Attribute) and n.func.attr == "add_argument":
            flags = []
            for a in n.args:
                if isinstance(a, ast.Constant) and isinstance(a.value, str):
                    flags.append(a.value)
                else:
                    raise Unrecognised(f"add_argument with non-literal flag {src(a)}", repo.loc(n))
            kw = {k.arg: k.value for k in n.keywords}
            dest = constfold.fold(kw["dest"]) if "dest" in kw else _dest_from_flags(flags)
            action = constfold.fold(kw["action"]) if "action" in kw else "store"

            def opt(name):
                if name not in kw:
                    return None
                try:
                    return constfold.fold(kw[name], {"SUPPRESS": "==SUPPRESS==", "__version__": "VERSION"})
                except constfold.NotConstant:
                    return kw[name]

            t = kw.get("type")
            tval = None
            if t is not None:
                if isinstance(t, ast.Name):
                    tval = t.id
                elif isinstance(t, ast.Lambda):
                    tval = t
                else:
                    tval = src(t)
            opts.append(Opt(flags, dest, action, tval, opt("default"), opt("choices"), opt("const"), n, opt("nargs")))
    if len(opts) < OPT_FLOOR:
        raise Unrecognised(f"only {len(opts)} add_argument calls found, expected at least {OPT_FLOOR}")
    return opts


def by_dest(opts):
    d = {}
    for o in opts:
        d.setdefault(o.dest, []).append(o)
    return d
