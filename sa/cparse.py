"""
Front end for src/cutadapt/expected_errors.h: a purpose-built tokenizer and statement
parser for exactly the C subset that header uses (one table initialiser, one function
with declarations, while loops, ifs, compound assignments and returns).  The function
body is transliterated statement by statement into Python source and parsed with ``ast``
so that the common analyses (abstract execution, linear forms) apply unchanged.
Anything outside the subset raises Unrecognised (=> ANALYSIS-ERROR, exit 2).
"""
from __future__ import annotations

import ast
import re

from .core import Unrecognised

TYPE_WORDS = {"const", "static", "inline", "unsigned", "signed", "uint8_t", "uint16_t", "uint32_t", "uint64_t", "int8_t", "int", "char", "double", "float", "size_t", "ssize_t", "long", "short"}
TOKEN_RE = re.compile(r"\s*(?:(\d+\.\d*(?:[eE][-+]?\d+)?[LlFf]?|\.\d+(?:[eE][-+]?\d+)?[LlFf]?|\d+(?:[eE][-+]?\d+)[LlFf]?|\d+[uUlL]*)|([A-Za-z_]\w*)|(\|\||&&|<=|>=|==|!=|\+=|-=|\*=|/=|\|=|&=|<<|>>|\+\+|--|->|[-+*/%<>=!&|^~?:;,.(){}\[\]]))")


def strip_comments(text: str) -> str:
    text = re.sub(r"/\*.*?\*/", " ", text, flags=re.S)
    text = re.sub(r"//[^\n]*", " ", text)
    return text


def tokenize(text: str):
    pos = 0
    out = []
    text = text.rstrip()
    while pos < len(text):
        m = TOKEN_RE.match(text, pos)
        if not m or m.end() == pos:
            if text[pos:].strip() == "":
                break
            raise Unrecognised(f"expected_errors.h: cannot tokenize near {text[pos:pos + 30]!r}")
        num, ident, op = m.groups()
        if num is not None:
            out.append(("num", num))
        elif ident is not None:
            out.append(("id", ident))
        else:
            out.append(("op", op))
        pos = m.end()
    return out


class Header:
    def __init__(self, source: str):
        self.source = source
        text = strip_comments(source)
        # preprocessor lines carry no behaviour we analyse (includes, SSE guard)
        text = "\n".join(l for l in text.splitlines() if not l.lstrip().startswith("#"))
        self.tables = {}
        self.functions = {}
        self._parse(text)

    def _parse(self, text):
        self.table_types = {}
        for m in re.finditer(r"(?:static\s+)?(?:const\s+)?((?:long\s+)?double|float)\s+(?:const\s+)?(\w+)\s*\[\s*(\d+)\s*\]\s*=\s*\{(.*?)\}\s*;", text, flags=re.S):
            ctype, name, size, body = " ".join(m.group(1).split()), m.group(2), int(m.group(3)), m.group(4)
            self.table_types[name] = ctype
            vals = []
            for item in body.split(","):
                item = item.strip()
                if not item:
                    continue
                mm = re.fullmatch(r"([-+]?(?:\d+\.\d*|\.\d+|\d+)(?:[eE][-+]?\d+)?)[LlFf]?", item)
                if not mm:
                    raise Unrecognised(f"expected_errors.h: table entry {item!r} is not a floating literal")
                vals.append(float(mm.group(1)))
            self.tables[name] = (size, vals)
        for m in re.finditer(r"(?:static\s+)?(?:inline\s+)?(?:double|float)\s*\n?\s*(\w+)\s*\(([^)]*)\)\s*\{", text, flags=re.S):
            name = m.group(1)
            params = []
            for p in m.group(2).split(","):
                toks = [t for t in re.findall(r"[A-Za-z_]\w*|\*", p)]
                params.append(toks[-1])
            start = m.end()
            depth, i = 1, start
            while i < len(text) and depth:
                if text[i] == "{":
                    depth += 1
                elif text[i] == "}":
                    depth -= 1
                i += 1
            if depth:
                raise Unrecognised("expected_errors.h: unbalanced braces")
            body = text[start:i - 1]
            self.functions[name] = (params, self._to_python(name, params, body))

    # -- statements ---------------------------------------------------------
    def _expr(self, toks):
        out = []
        prev = None
        for kind, t in toks:
            if kind == "num":
                t = re.sub(r"[LlFfuU]+$", "", t)
                out.append(t)
            elif kind == "id":
                out.append(t)
            else:
                if t == "||":
                    out.append(" or ")
                elif t == "&&":
                    out.append(" and ")
                elif t == "!":
                    out.append(" not ")
                elif t == "*" and (prev is None or (prev[0] == "op" and prev[1] not in (")", "]"))):
                    out.append("__deref__*")  # marker, fixed below
                elif t in ("++", "--", "->", "?", ":", "."):
                    raise Unrecognised(f"expected_errors.h: operator {t} is outside the supported subset")
                else:
                    out.append(t)
            prev = (kind, t)
        s = "".join(x if x.startswith(" ") else (" " + x if x in ("<", ">", "<=", ">=", "==", "!=", "+", "-", "|", "&") else x) for x in out)
        s = re.sub(r"__deref__\*\s*([A-Za-z_]\w*)", r"\1[0]", s)
        if "__deref__" in s:
            raise Unrecognised("expected_errors.h: dereference of a non-identifier")
        return s.strip()

    def _to_python(self, name, params, body):
        toks = tokenize(body)
        lines = []
        indent = 1
        i = 0

        def until(stop, j):
            depth = 0
            k = j
            while k < len(toks):
                kind, t = toks[k]
                if kind == "op" and t in ("(", "["):
                    depth += 1
                elif kind == "op" and t in (")", "]"):
                    if depth == 0 and t == stop:
                        return k
                    depth -= 1
                elif kind == "op" and t == stop and depth == 0:
                    return k
                k += 1
            raise Unrecognised(f"expected_errors.h: missing {stop!r}")

        # braces: 'block' (while/if) or a switch context. A switch is lowered to a chain of ifs on a temporary, the labels
        # that fall through into a block accumulating in its test:  switch (e) {case 2: A; case 1: B;}  becomes
        #   __sw1 = e;  if __sw1 == 2: A;  if __sw1 == 2 or __sw1 == 1: B
        blocks = []
        n_switch = 0
        raw_append = lines.append

        def emit(line_):
            nonlocal indent
            sw = next((b for b in reversed(blocks) if isinstance(b, dict)), None)
            if sw is not None and sw["pending"] and blocks and blocks[-1] is sw:
                if not sw["active"]:
                    raise Unrecognised("expected_errors.h: statement in a switch before the first case label")
                raw_append("    " * indent + "if " + " or ".join(f"{sw['var']} == {k}" for k in sw["active"]) + ":")
                indent += 1
                sw["pending"] = False
                sw["open"] = True
                line_ = "    " + line_
            raw_append(line_)

        class _L:
            append = staticmethod(emit)

        lines_out = lines
        lines = _L

        while i < len(toks):
            kind, t = toks[i]
            if kind == "op" and t == "}":
                b = blocks.pop() if blocks else "block"
                if isinstance(b, dict):
                    if b["open"]:
                        indent -= 1
                else:
                    indent -= 1
                i += 1
                continue
            if kind == "id" and t == "switch":
                if toks[i + 1] != ("op", "("):
                    raise Unrecognised("expected_errors.h: '(' expected")
                j = until(")", i + 2)
                if toks[j + 1] != ("op", "{"):
                    raise Unrecognised("expected_errors.h: '{' expected after switch (...)")
                n_switch += 1
                var = f"__sw{n_switch}"
                lines.append("    " * indent + f"{var} = " + self._expr(toks[i + 2:j]))
                blocks.append({"var": var, "active": [], "pending": False, "open": False, "dead": False})
                i = j + 2
                continue
            if kind == "id" and t in ("case", "default") and blocks and isinstance(blocks[-1], dict):
                sw = blocks[-1]
                if t == "default":
                    raise Unrecognised("expected_errors.h: 'default' is outside the supported subset")
                j = i + 1
                while j < len(toks) and toks[j] != ("op", ":"):
                    j += 1
                label = "".join(tt for _, tt in toks[i + 1:j])
                if not re.fullmatch(r"-?\d+", label):
                    raise Unrecognised(f"expected_errors.h: case label {label!r} is not an integer literal")
                if sw["open"]:
                    indent -= 1
                    sw["open"] = False
                if sw["dead"]:
                    sw["active"] = []
                    sw["dead"] = False
                sw["active"].append(label)
                sw["pending"] = True
                i = j + 1
                continue
            if kind == "id" and t == "break" and blocks and isinstance(blocks[-1], dict):
                blocks[-1]["dead"] = True  # the labels collected so far do not reach the next block
                i += 2 if toks[i + 1] == ("op", ";") else 1
                continue
            if kind == "op" and t == ";":
                i += 1
                continue
            if kind == "id" and t in ("while", "if"):
                if toks[i + 1] != ("op", "("):
                    raise Unrecognised("expected_errors.h: '(' expected")
                j = until(")", i + 2)
                cond = self._expr(toks[i + 2:j])
                if toks[j + 1] != ("op", "{"):
                    raise Unrecognised("expected_errors.h: braces are required after while/if in the supported subset")
                lines.append("    " * indent + f"{t} {cond}:")
                indent += 1
                blocks.append("block")
                i = j + 2
                continue
            if kind == "id" and t == "else":
                raise Unrecognised("expected_errors.h: 'else' is outside the supported subset")
            if kind == "id" and t == "return":
                j = until(";", i + 1)
                lines.append("    " * indent + "return " + self._expr(toks[i + 1:j]))
                i = j + 1
                continue
            if kind == "id" and t in TYPE_WORDS:
                # declaration: type words, optional '*', name, '=', expr ';'
                j = i
                while j < len(toks) and (toks[j][0] == "id" and toks[j][1] in TYPE_WORDS or toks[j] == ("op", "*")):
                    j += 1
                if toks[j][0] != "id":
                    raise Unrecognised("expected_errors.h: declarator expected")
                var = toks[j][1]
                if toks[j + 1] == ("op", ";"):
                    i = j + 2
                    continue
                if toks[j + 1] != ("op", "="):
                    raise Unrecognised("expected_errors.h: initialiser expected")
                k = until(";", j + 2)
                lines.append("    " * indent + f"{var} = " + self._expr(toks[j + 2:k]))
                i = k + 1
                continue
            # assignment statement
            j = until(";", i)
            stmt = toks[i:j]
            ops = [n for n, (kk, tt) in enumerate(stmt) if kk == "op" and tt in ("=", "+=", "-=", "*=", "/=", "|=", "&=")]
            if not ops:
                raise Unrecognised(f"expected_errors.h: statement {' '.join(t for _, t in stmt)!r} is outside the supported subset")
            n = ops[0]
            lines.append("    " * indent + self._expr(stmt[:n]) + " " + stmt[n][1] + " " + self._expr(stmt[n + 1:]))
            i = j + 1
        lines = lines_out
        src = f"def {name}({', '.join(params)}):\n" + "\n".join(lines) + "\n"
        try:
            return ast.parse(src).body[0], src
        except SyntaxError as e:
            raise Unrecognised(f"expected_errors.h: transliteration is not valid: {e}\n{src}")
