"""
A2: builder interpreter for make_pipeline_from_args and its helpers.

The builder function is executed abstractly, one top-level statement ("block") at a
time, with the forking executor of absint: inside a block every undecided option test
forks, so each block yields its complete decision tree; between blocks the environments
of the surviving rows are merged (names with differing values become ``phi:<name>``).
Appends/extends to the lists that flow into ``SingleEndPipeline(...)`` /
``PairedEndPipeline(...)`` are recorded as *slots* in program order together with

* the term that is appended (constructor terms ``Class(arg terms)``, tuples, copies),
* the local guard (the row's valuation),
* the option dests that switch the slot on: the ``args.<dest>`` symbols occurring in the
  term and in the tests of the ``if`` statements enclosing the append / yield (followed
  through inlined generator helpers with their parameters bound).

For any full configuration the pipeline's list is the concatenation, over blocks, of the
slots of the row that the configuration selects in each block; two slots of different
blocks can occur together iff their guards do not contradict each other.
"""
from __future__ import annotations

import ast
import re

from .absint import Const, Executor, Func, Obj, Tup, explore, vkey, Stop
from .core import Unrecognised
from .lin import Lin
from .repo import chain, src, strip_docstring

DEST_RE = re.compile(r"\bargs\.(\w+)")
ADAPTER_RE = re.compile(r"(?<![\w.])(adapters2?)(?![\w(])")


def dests_in(text: str) -> set:
    out = set(DEST_RE.findall(text))
    out |= set(ADAPTER_RE.findall(text))
    return out


class Slot:
    __slots__ = ("list", "value", "key", "levels", "term_dests", "node", "loop", "stmt_src", "fn")

    def __init__(self, lst, value, levels, node, loop, fn):
        self.list = lst
        self.value = value
        self.key = vkey(value)
        self.levels = [set(l) for l in levels]  # guard dests, innermost enclosing test first
        self.term_dests = dests_in(self.key)
        self.node = node
        self.loop = loop
        self.fn = fn

    @property
    def guard_dests(self):
        out = set()
        for l in self.levels:
            out |= l
        return out

    def dests(self):
        return self.term_dests | self.guard_dests

    def switch_dests(self, parameter_dests=()):
        """Dests that switch the slot on: those the term is built from, else the innermost guard."""
        t = self.term_dests - set(parameter_dests)
        if t:
            return t
        for l in self.levels:
            g = l - set(parameter_dests)
            if g:
                return g
        return set()

    def describe(self):
        return {"list": self.list, "term": self.key, "term_dests": sorted(self.term_dests), "guard_levels": [sorted(l) for l in self.levels], "line": getattr(self.node, "lineno", 0), "in": self.fn}


class BuilderExec(Executor):
    tracked = ("modifiers", "steps")

    def __init__(self, repo, valuation, **kw):
        kw.setdefault("inline", True)
        super().__init__(repo, valuation, **kw)
        self.frames = []  # (call-site stmt, env) of inlined calls
        self.extra_levels = []  # guard levels inherited from the yield that produced a loop item
        self.cur = None
        self.fn_stack = ["make_pipeline_from_args"]

    # track the current statement
    def run(self, stmts, env):
        for s in stmts:
            self.cur = s
            m = getattr(self, "s_" + type(s).__name__, None)
            if m is None:
                raise Unrecognised(f"unsupported statement {type(s).__name__} in builder: {src(s)[:80]}")
            m(s, env)

    def _enclosing_tests(self, stmt):
        tests = []
        n = getattr(stmt, "_parent", None)
        while n is not None and not isinstance(n, (ast.FunctionDef, ast.Module)):
            if isinstance(n, ast.If):
                tests.append(n.test)
            n = getattr(n, "_parent", None)
        return tests

    def _dests_of_tests(self, stmt, env):
        """list of dest sets, innermost enclosing if first"""
        levels = []
        for t in self._enclosing_tests(stmt):
            out = set()
            for n in ast.walk(t):
                if isinstance(n, (ast.Name, ast.Attribute)):
                    ch = chain(n)
                    if ch is None:
                        continue
                    out |= dests_in(ch)
                    root = ch.split(".")[0]
                    if root in env and root != "args":
                        v = env[root]
                        out |= dests_in(vkey(v))
            levels.append(out)
        return levels

    def guard_dests(self, stmt, env):
        levels = self._dests_of_tests(stmt, env)
        for extra in reversed(self.extra_levels):
            levels.extend(extra)
        for st, e in reversed(self.frames):
            if st is not None:
                levels.extend(self._dests_of_tests(st, e))
        return levels

    def add_slot(self, lst, value, stmt, env):
        s = Slot(lst, value, self.guard_dests(stmt, env), stmt, bool(self.loop_depth), self.fn_stack[-1])
        self.effect("slot", lst, s.key, stmt, s)

    # -- calls ------------------------------------------------------------------
    def e_Call(self, node, env):
        f = node.func
        # tracked list mutation
        if isinstance(f, ast.Attribute) and isinstance(f.value, ast.Name) and f.value.id in self.tracked and self.depth == 0 or (
            isinstance(f, ast.Attribute) and isinstance(f.value, ast.Name) and f.value.id in self.tracked and f.value.id in env and isinstance(env[f.value.id], Tup) and getattr(env[f.value.id], "_tracked", False)
        ):
            lst = f.value.id
            stmt = self.cur
            if f.attr == "append" and len(node.args) == 1:
                v = self.ev(node.args[0], env)
                self.add_slot(lst, v, stmt, env)
                return Const(None)
            if f.attr == "extend" and len(node.args) == 1:
                n0 = len(self.effects)
                self.frames.append((stmt, env))
                try:
                    v = self.ev(node.args[0], env)
                finally:
                    self.frames.pop()
                ys = [e for e in self.effects[n0:] if e[0] == "yield"]
                if ys:
                    new = []
                    for e in self.effects[n0:]:
                        if e[0] == "yield":
                            s = Slot(lst, e[5], self._yield_guards.get(id(e[6]), []) + self.guard_dests(stmt, env), e[6], bool(e[4]), self._yield_fn.get(id(e[6]), "?"))
                            new.append(("slot", lst, s.key, e[3], e[4], s, e[6]))
                        else:
                            new.append(e)
                    self.effects[n0:] = new
                    return Const(None)
                if isinstance(v, Tup):
                    for it in v.items:
                        self.add_slot(lst, it, stmt, env)
                    return Const(None)
                if isinstance(v, Const) and v.value is None:
                    return Const(None)  # generator that yielded nothing on this path
                raise Unrecognised(f"extend of {lst} with unrecognised value {vkey(v)}", f"line {getattr(node, 'lineno', 0)}")
            if f.attr in ("insert", "remove", "pop", "clear", "sort", "reverse"):
                raise Unrecognised(f"{lst}.{f.attr}() is outside the builder model", f"line {getattr(node, 'lineno', 0)}")
        # copy.copy
        cn = chain(f)
        if cn in ("copy.copy", "copy.deepcopy") and len(node.args) == 1:
            v = self.ev(node.args[0], env)
            if isinstance(v, Const):
                return v
            return Obj(f"copy({vkey(v)})", cls=getattr(v, "cls", None), nonnull=True)
        # constructor terms
        fv = None
        if isinstance(f, ast.Name):
            fv = env.get(f.id)
            cname = f.id if fv is None else (fv.k if isinstance(fv, Obj) else None)
            if cname in self.repo.classes and not isinstance(fv, Func):
                args = []
                for a in node.args:
                    if isinstance(a, ast.Starred):
                        v = self.ev(a.value, env)
                        args.append("*" + vkey(v))
                    else:
                        args.append(vkey(self.ev(a, env)))
                for kw in node.keywords:
                    args.append(f"{kw.arg}={vkey(self.ev(kw.value, env))}")
                return Obj(f"{cname}({', '.join(args)})", cls=cname, nonnull=True)
        # generator / helper functions of the cli module are inlined with frames
        if isinstance(f, ast.Name) and f.id in self.inline_funcs and f.id not in env and self.depth < 3:
            self.frames.append((self.cur, env))
            self.fn_stack.append(f.id)
            saved = self.cur
            try:
                return super().e_Call(node, env)
            finally:
                self.cur = saved
                self.fn_stack.pop()
                self.frames.pop()
        if isinstance(fv, Func):
            self.frames.append((self.cur, env))
            self.fn_stack.append(fv.name)
            saved = self.cur
            try:
                return super().e_Call(node, env)
            finally:
                self.cur = saved
                self.fn_stack.pop()
                self.frames.pop()
        return super().e_Call(node, env)

    _yield_guards: dict = {}
    _yield_fn: dict = {}

    def s_Expr(self, s, env):
        if isinstance(s.value, (ast.Yield,)):
            v = self.ev(s.value.value, env) if s.value.value is not None else Const(None)
            # remember the guards of the yield inside its generator (its own enclosing ifs + frames)
            type(self)._yield_guards[id(s)] = self._dests_of_tests(s, env)
            type(self)._yield_fn[id(s)] = self.fn_stack[-1]
            self.effect("yield", "", vkey(v), s, v)
            return
        return super().s_Expr(s, env)

    def s_For(self, s, env):
        # a loop over an inlined generator call iterates over its yields, in order
        if isinstance(s.iter, ast.Call) and isinstance(s.iter.func, ast.Name) and s.iter.func.id in self.inline_funcs and s.iter.func.id not in env:
            n0 = len(self.effects)
            self.frames.append((s, env))
            try:
                self.ev(s.iter, env)
            finally:
                self.frames.pop()
            ys = [e for e in self.effects[n0:] if e[0] == "yield"]
            self.effects[n0:] = [e for e in self.effects[n0:] if e[0] != "yield"]
            for e in ys:
                self.assign(s.target, e[5], env, s)
                self.extra_levels.append(self._yield_guards.get(id(e[6]), []))
                if e[4]:
                    self.loop_depth += 1
                try:
                    try:
                        self.run(s.body, env)
                    except Stop as st:
                        if st.kind == "break":
                            return
                        if st.kind != "continue":
                            raise
                finally:
                    self.extra_levels.pop()
                    if e[4]:
                        self.loop_depth -= 1
            self.run(s.orelse, env)
            return
        it = None
        if isinstance(s.iter, (ast.List, ast.Tuple)):
            it = self.ev(s.iter, env)
        if isinstance(it, Tup):
            for item in it.items:
                self.assign(s.target, item, env, s)
                self.extra_levels.append([dests_in(vkey(item))])
                try:
                    try:
                        self.run(s.body, env)
                    except Stop as st:
                        if st.kind == "break":
                            return
                        if st.kind != "continue":
                            raise
                finally:
                    self.extra_levels.pop()
            self.run(s.orelse, env)
            return
        return super().s_For(s, env)

    def s_AugAssign(self, s, env):
        if isinstance(s.target, ast.Name) and s.target.id in self.tracked and self.depth == 0 and isinstance(s.op, ast.Add):
            v = self.ev(s.value, env)
            if isinstance(v, Tup):
                for it in v.items:
                    self.add_slot(s.target.id, it, s, env)
                return
            raise Unrecognised(f"{s.target.id} += {src(s.value)}: not a literal list")
        return super().s_AugAssign(s, env)

    def cmp1(self, op, l, r, node):
        if isinstance(op, (ast.Is, ast.IsNot)) and isinstance(l, Obj) and isinstance(r, Obj) and l.k in self.repo.classes and r.k in self.repo.classes:
            res = l.k == r.k
            return res if isinstance(op, ast.Is) else not res
        return super().cmp1(op, l, r, node)


class Block:
    def __init__(self, stmt, rows):
        self.stmt = stmt
        self.rows = rows  # list of (valuation, [Slot], exit, row)

    def describe(self):
        return {"line": getattr(self.stmt, "lineno", 0), "rows": len(self.rows)}


class BuilderModel:
    def __init__(self, paired, blocks, pipeline_call, errors):
        self.paired = paired
        self.blocks = blocks
        self.pipeline_call = pipeline_call
        self.errors = errors

    def slots(self, lst):
        """Yield (block_index, row_index, position, valuation, Slot) in program order."""
        for bi, b in enumerate(self.blocks):
            for ri, (val, slots, ex, row) in enumerate(b.rows):
                pos = 0
                for s in slots:
                    if s.list == lst:
                        yield bi, ri, pos, val, s
                        pos += 1


def compatible(v1: dict, v2: dict) -> bool:
    for k, v in v1.items():
        if k in v2 and v2[k] != v:
            return False
    return True


class Precondition:
    """check_arguments(args, paired) runs before the builder: configurations it rejects never reach it."""

    def __init__(self, repo, paired, args_obj):
        self.repo = repo
        self.body = None
        self.env = None
        self.atoms = set()
        self.cache = {}
        try:
            ca = repo.func("cli", "check_arguments")
        except Unrecognised:
            return
        if [a.arg for a in ca.args.args] != ["args", "paired"]:
            return
        self.body = strip_docstring(ca.body)
        self.env = {"args": args_obj, "paired": Const(paired)}
        pre = explore(repo, self.body, self.env, max_rows=20000)
        for r in pre:
            self.atoms |= set(r.valuation)
        self.n_rejecting = sum(1 for r in pre if r.exit[0] == "raise")

    def rejects(self, val: dict) -> bool:
        """True iff check_arguments raises on every configuration that agrees with ``val``."""
        if self.body is None:
            return False
        init = {k: v for k, v in val.items() if k in self.atoms}
        key = tuple(sorted(init.items(), key=lambda kv: kv[0]))
        if key in self.cache:
            return self.cache[key]
        rows = explore(self.repo, self.body, self.env, initial=init, stop_when=lambda r: r.exit[0] != "raise", max_rows=20000)
        res = all(r.exit[0] == "raise" for r in rows)
        self.cache[key] = res
        return res


def analyse_builder(repo, paired: bool, extra_env=None) -> BuilderModel:
    fn = repo.func("cli", "make_pipeline_from_args")
    ps = [a.arg for a in fn.args.args]
    need = ["args", "paired", "adapters", "adapters2"]
    for n in need:
        if n not in ps:
            raise Unrecognised(f"make_pipeline_from_args lost its parameter {n}", repo.loc(fn))
    env = {}
    for p in ps:
        env[p] = Obj(p, nonnull=(p in ("args", "outfiles", "input_file_format")))
    env["paired"] = Const(paired)
    if extra_env:
        env.update(extra_env)
    # generator helpers of the cli module are inlined; everything else stays opaque
    inline_funcs = {}
    for name, f in repo.funcs("cli").items():
        if any(isinstance(n, (ast.Yield, ast.YieldFrom)) for n in ast.walk(f)):
            inline_funcs[name] = f
    # the tracked lists: those passed to the pipeline constructors
    pipeline_calls = [n for n in ast.walk(fn) if isinstance(n, ast.Call) and chain(n.func) in ("SingleEndPipeline", "PairedEndPipeline")]
    if len(pipeline_calls) != 2:
        raise Unrecognised("expected one SingleEndPipeline(...) and one PairedEndPipeline(...) construction in the builder", repo.loc(fn))
    tracked = set()
    for c in pipeline_calls:
        if len(c.args) != 2 or not all(isinstance(a, ast.Name) for a in c.args):
            raise Unrecognised(f"pipeline constructed with non-name arguments: {src(c)}", repo.loc(c))
        tracked |= {a.id for a in c.args}
        if [a.id for a in c.args] != [a.id for a in pipeline_calls[0].args]:
            raise Unrecognised("the two pipeline constructions receive different lists")
    BuilderExec.tracked = tuple(sorted(tracked))
    blocks, errors = [], []
    body = strip_docstring(fn.body)
    # configurations rejected before the builder runs (check_arguments is called first in main)
    pre = Precondition(repo, paired, env["args"])
    for stmt in body:
        rows = explore(repo, [stmt], env, executor_cls=BuilderExec, inline_funcs=inline_funcs, feasibility=True, max_rows=60000)
        brs = []
        live = []
        for r in rows:
            slots = [e[5] for e in r.effects if e[0] == "slot"]
            if r.exit[0] == "raise":
                errors.append((stmt, r))
                continue
            if pre.rejects(r.valuation):
                continue
            brs.append((r.valuation, slots, r.exit, r))
            live.append(r)
        blocks.append(Block(stmt, brs))
        if not live:
            raise Unrecognised(f"every path of the builder statement at line {stmt.lineno} raises", repo.loc(stmt))
        # merge environments
        names = set()
        for r in live:
            names |= set(r.env)
        new_env = {}
        for n in names:
            vals = [r.env.get(n) for r in live]
            if any(v is None for v in vals):
                # defined on some paths only
                present = [v for v in vals if v is not None]
                if all(vkey(v) == vkey(present[0]) for v in present):
                    new_env[n] = present[0]
                else:
                    new_env[n] = Obj(f"phi:{n}")
                continue
            k0 = vkey(vals[0])
            if all(vkey(v) == k0 for v in vals):
                new_env[n] = vals[0]
            else:
                o = Obj(f"phi:{n}")
                new_env[n] = o
        env = new_env
    return BuilderModel(paired, blocks, pipeline_calls, errors)
