"""
Testing the checker both ways (DESIGN.md 4.5).

Benign twins: behaviour-preserving, AST-computed edits applied to an in-memory copy of one
source file; every rule must stay silent (exit 0) on each of them.  Breaking variants:
AST-computed edits that change behaviour at an anchored construct; the named property's
check must fire.  Nothing is executed and nothing is written into /repo: the edited text is
handed to the front ends through Repo(overrides=...).

Usage:  python -m sa.selftest twins [--family F] [--limit N] [-j J]
        python -m sa.selftest variants [-j J]
Prints one line per alarm and a summary; exit 0 iff no twin alarms (twins) / no variant is missed (variants).
"""
from __future__ import annotations

import ast
import copy
import json
import multiprocessing
import os
import re
import sys
import time

from .repo import Repo, PKG_REL, repo_root

ALL = [f"C{i:02d}" for i in range(1, 21)]
PY_TARGETS = ["log.py", "adapters.py", "modifiers.py", "steps.py", "cli.py", "report.py", "runners.py", "files.py", "parser.py", "predicates.py", "pipeline.py", "kmer_heuristic.py", "statistics.py", "align.py", "_match_tables.py"]


_ROOT = None
_SHARD = None  # (k, n): build only every n-th twin of a family/file (the thorough tier generates twins inside its workers)


def _want(i):
    return _SHARD is None or i % _SHARD[1] == _SHARD[0]


def _read(fn):
    with open(os.path.join(_ROOT or repo_root(), PKG_REL, fn), encoding="utf-8") as f:
        return f.read()


# ---------------------------------------------------------------------------
# twin families (.py files)
# ---------------------------------------------------------------------------
def _functions(tree):
    for n in ast.walk(tree):
        if isinstance(n, (ast.FunctionDef,)):
            yield n


def _locals_of(fn):
    """names assigned in fn (not parameters, not global/nonlocal, not used in nested functions)"""
    params = {a.arg for a in fn.args.posonlyargs + fn.args.args + fn.args.kwonlyargs}
    if fn.args.vararg:
        params.add(fn.args.vararg.arg)
    if fn.args.kwarg:
        params.add(fn.args.kwarg.arg)
    banned = set()
    nested_names = set()
    assigned = set()
    for n in ast.walk(fn):
        if isinstance(n, (ast.Global, ast.Nonlocal)):
            banned |= set(n.names)
        if n is not fn and isinstance(n, (ast.FunctionDef, ast.Lambda, ast.ClassDef)):
            for x in ast.walk(n):
                if isinstance(x, ast.Name):
                    nested_names.add(x.id)
        if isinstance(n, ast.Name) and isinstance(n.ctx, ast.Store):
            assigned.add(n.id)
        if isinstance(n, ast.ExceptHandler) and n.name:
            banned.add(n.name)
        if isinstance(n, (ast.Import, ast.ImportFrom)):
            for a in n.names:
                banned.add((a.asname or a.name).split(".")[0])
    return sorted(assigned - params - banned - nested_names - {"_"})


class _Rename(ast.NodeTransformer):
    def __init__(self, old, new):
        self.old, self.new = old, new

    def visit_Name(self, node):
        if node.id == self.old:
            return ast.copy_location(ast.Name(id=self.new, ctx=node.ctx), node)
        return node


def twins_rename_local(fn_name, src):
    tree = ast.parse(src)
    funcs = list(_functions(tree))
    cnt = -1
    for i, fn in enumerate(funcs):
        for loc in _locals_of(fn):
            cnt += 1
            if not _want(cnt):
                continue
            # the generated rename function of Renamer uses exec'd code with fixed names: skip dunder-ish and short loop names used in f-strings? (all fine: Name nodes cover f-strings)
            t2 = ast.parse(src)
            f2 = list(_functions(t2))[i]
            new = loc + "_renamed"
            _Rename(loc, new).visit(f2)
            yield f"rename-local:{fn_name}:{fn.name}:{loc}", ast.unparse(t2)


_MIRROR = {ast.Lt: ast.Gt, ast.Gt: ast.Lt, ast.LtE: ast.GtE, ast.GtE: ast.LtE, ast.Eq: ast.Eq, ast.NotEq: ast.NotEq}


def twins_flip_compare(fn_name, src):
    tree = ast.parse(src)
    sites = [n for n in ast.walk(tree) if isinstance(n, ast.Compare) and len(n.ops) == 1 and type(n.ops[0]) in _MIRROR]
    for i in range(len(sites)):
        if not _want(i):
            continue
        t2 = ast.parse(src)
        n = [x for x in ast.walk(t2) if isinstance(x, ast.Compare) and len(x.ops) == 1 and type(x.ops[0]) in _MIRROR][i]
        # operands with side effects / order dependence: only flip when both sides are call-free or the calls are pure-looking
        n.left, n.comparators[0] = n.comparators[0], n.left
        n.ops[0] = _MIRROR[type(n.ops[0])]()
        yield f"flip-compare:{fn_name}:{sites[i].lineno}", ast.unparse(t2)


def twins_negate_if(fn_name, src):
    tree = ast.parse(src)
    def eligible(n):
        return isinstance(n, ast.If) and n.orelse and not (len(n.orelse) == 1 and isinstance(n.orelse[0], ast.If))
    sites = [n for n in ast.walk(tree) if eligible(n)]
    for i in range(len(sites)):
        if not _want(i):
            continue
        t2 = ast.parse(src)
        n = [x for x in ast.walk(t2) if eligible(x)][i]
        n.test = ast.UnaryOp(op=ast.Not(), operand=n.test)
        n.body, n.orelse = n.orelse, n.body
        ast.fix_missing_locations(t2)
        yield f"negate-if:{fn_name}:{sites[i].lineno}", ast.unparse(t2)


def twins_ifexp_to_if(fn_name, src):
    """x = a if c else b  ->  if c: x = a else: x = b"""
    tree = ast.parse(src)
    def eligible(n):
        return isinstance(n, ast.Assign) and len(n.targets) == 1 and isinstance(n.value, ast.IfExp) and isinstance(n.targets[0], (ast.Name, ast.Attribute))
    sites = [n for n in ast.walk(tree) if eligible(n)]
    for i in range(len(sites)):
        if not _want(i):
            continue
        t2 = ast.parse(src)
        class T(ast.NodeTransformer):
            k = -1
            def visit_Assign(self, node):
                if eligible(node):
                    T.k += 1
                    if T.k == i:
                        a = ast.Assign(targets=copy.deepcopy(node.targets), value=node.value.body)
                        b = ast.Assign(targets=copy.deepcopy(node.targets), value=node.value.orelse)
                        return ast.If(test=node.value.test, body=[a], orelse=[b])
                return node
        T.k = -1
        T().visit(t2)
        ast.fix_missing_locations(t2)
        yield f"ifexp-to-if:{fn_name}:{sites[i].lineno}", ast.unparse(t2)


def twins_augassign(fn_name, src):
    """x += e  ->  x = x + e   (names and attributes only; not for lists being extended in place)"""
    tree = ast.parse(src)
    def eligible(n):
        return isinstance(n, ast.AugAssign) and isinstance(n.op, (ast.Add, ast.Sub)) and isinstance(n.target, (ast.Name, ast.Attribute)) and isinstance(n.value, (ast.Constant, ast.Name, ast.BinOp, ast.Call, ast.Attribute)) and not isinstance(n.value, (ast.List, ast.Tuple))
    sites = [n for n in ast.walk(tree) if eligible(n)]
    for i in range(len(sites)):
        if isinstance(sites[i].value, ast.Constant) and not isinstance(sites[i].value.value, (int, float)):
            continue
        if not (isinstance(sites[i].value, ast.Constant) or isinstance(sites[i].op, ast.Sub) or "len(" in ast.unparse(sites[i].value) or "bool(" in ast.unparse(sites[i].value) or "other." in ast.unparse(sites[i].value)):
            continue  # only where the operand is clearly numeric
        if not _want(i):
            continue
        t2 = ast.parse(src)
        class T(ast.NodeTransformer):
            k = -1
            def visit_AugAssign(self, node):
                if eligible(node):
                    T.k += 1
                    if T.k == i:
                        load = copy.deepcopy(node.target)
                        for x in ast.walk(load):
                            if hasattr(x, "ctx"):
                                x.ctx = ast.Load()
                        return ast.Assign(targets=[node.target], value=ast.BinOp(left=load, op=node.op, right=node.value))
                return node
        T.k = -1
        T().visit(t2)
        ast.fix_missing_locations(t2)
        yield f"augassign:{fn_name}:{sites[i].lineno}", ast.unparse(t2)


def twins_unparse(fn_name, src):
    yield f"reformat:{fn_name}", ast.unparse(ast.parse(src))
    yield f"shift-lines:{fn_name}", "\n\n\n# a comment that moves every line\n" + src


def twins_extra_handler_and_filter(fn_name, src):
    """permissive additions that must never alarm"""
    if fn_name == "report.py":
        yield "extra-filter-key", src.replace('    "casava_filtered": "failed CASAVA filter",', '    "casava_filtered": "failed CASAVA filter",\n    "unused_extra_name": "never produced",')
    if fn_name == "cli.py":
        yield "extra-handler-class", src.replace("        dnaio.FileFormatError,\n        CommandLineError,\n    ) as e:", "        dnaio.FileFormatError,\n        UnicodeDecodeError,\n        CommandLineError,\n    ) as e:")



def _terminates(stmts):
    return bool(stmts) and isinstance(stmts[-1], (ast.Return, ast.Raise, ast.Continue, ast.Break))


def twins_else_after_jump(fn_name, src):
    """if c: ...; return/raise/continue/break   <rest>      ->  if c: ... else: <rest>     (and the reverse direction:
    if c: <jump> else: <rest>  ->  if c: <jump>; <rest>)"""
    tree = ast.parse(src)

    def sites_of(t):
        out = []
        for n in ast.walk(t):
            for field in ("body", "orelse", "finalbody"):
                blk = getattr(n, field, None)
                if not isinstance(blk, list):
                    continue
                for i, st in enumerate(blk):
                    if isinstance(st, ast.If) and _terminates(st.body):
                        if not st.orelse and i + 1 < len(blk) and not isinstance(n, ast.Module):
                            out.append(("wrap", n, field, i))
                        elif st.orelse and not (len(st.orelse) == 1 and isinstance(st.orelse[0], ast.If)):
                            out.append(("unwrap", n, field, i))
        return out

    n_sites = len(sites_of(tree))
    for k in range(n_sites):
        if not _want(k):
            continue
        t2 = ast.parse(src)
        kind, n, field, i = sites_of(t2)[k]
        blk = getattr(n, field)
        st = blk[i]
        if kind == "wrap":
            st.orelse = blk[i + 1:]
            del blk[i + 1:]
        else:
            rest = st.orelse
            st.orelse = []
            blk[i + 1:i + 1] = rest
        ast.fix_missing_locations(t2)
        yield f"else-after-jump:{fn_name}:{st.lineno}:{kind}", ast.unparse(t2)


def twins_nested_and(fn_name, src):
    """if a and b: X   (no else)  ->  if a: if b: X"""
    tree = ast.parse(src)

    def eligible(n):
        return isinstance(n, ast.If) and not n.orelse and isinstance(n.test, ast.BoolOp) and isinstance(n.test.op, ast.And) and len(n.test.values) == 2

    sites = [n for n in ast.walk(tree) if eligible(n)]
    for k in range(len(sites)):
        if not _want(k):
            continue
        t2 = ast.parse(src)
        n = [x for x in ast.walk(t2) if eligible(x)][k]
        a, b = n.test.values
        inner = ast.If(test=b, body=n.body, orelse=[])
        n.test = a
        n.body = [inner]
        ast.fix_missing_locations(t2)
        yield f"nested-and:{fn_name}:{sites[k].lineno}", ast.unparse(t2)


def twins_demorgan(fn_name, src):
    """a or b (as an if/while test)  ->  not (not a and not b);   a and b  ->  not (not a or not b)"""
    tree = ast.parse(src)

    def eligible(n):
        return isinstance(n, (ast.If, ast.While)) and isinstance(n.test, ast.BoolOp) and len(n.test.values) == 2

    sites = [n for n in ast.walk(tree) if eligible(n)]
    for k in range(len(sites)):
        if not _want(k):
            continue
        t2 = ast.parse(src)
        n = [x for x in ast.walk(t2) if eligible(x)][k]
        a, b = n.test.values
        op = ast.And() if isinstance(n.test.op, ast.Or) else ast.Or()
        n.test = ast.UnaryOp(op=ast.Not(), operand=ast.BoolOp(op=op, values=[ast.UnaryOp(op=ast.Not(), operand=a), ast.UnaryOp(op=ast.Not(), operand=b)]))
        ast.fix_missing_locations(t2)
        yield f"demorgan:{fn_name}:{sites[k].lineno}", ast.unparse(t2)


PYX_RENAMES = [
    ("_align.pyx", "cur_effective_length", "eff_len"),
    ("_align.pyx", "best_length", "len_of_best"),
    ("_align.pyx", "cost_diag", "c_diag"),
    ("_align.pyx", "last_filled_i", "filled_rows"),
    ("qualtrim.pyx", "max_qual", "best_sum"),
    ("qualtrim.pyx", "max_i", "cut_position"),
    ("_kmer_finder.pyx", "search_length", "n_to_search"),
    ("_kmer_finder.pyx", "search_ptr", "hay"),
]



# ---------------------------------------------------------------------------
# families added in the fourth round: refactorings a maintainer makes without changing behaviour
# ---------------------------------------------------------------------------
def _pure(e):
    """expression without calls (except len), without walrus/await/yield: evaluating it earlier or twice changes nothing"""
    for x in ast.walk(e):
        if isinstance(x, ast.Call) and not (isinstance(x.func, ast.Name) and x.func.id == "len"):
            return False
        if isinstance(x, (ast.NamedExpr, ast.Await, ast.Yield, ast.YieldFrom, ast.Lambda, ast.ListComp, ast.SetComp, ast.DictComp, ast.GeneratorExp, ast.Starred)):
            return False
    return True


def _stmt_lists(tree):
    for n in ast.walk(tree):
        for f in ("body", "orelse", "finalbody"):
            v = getattr(n, f, None)
            if isinstance(v, list) and v and isinstance(v[0], ast.stmt):
                yield n, f, v


def twins_annotate_assign(fn_name, src):
    """x = e  ->  x: object = e   for the simple local assignments of every function (one twin per file)"""
    t2 = ast.parse(src)
    changed = 0
    for fn in _functions(t2):
        seen = set()
        globs = {g for n in ast.walk(fn) if isinstance(n, (ast.Global, ast.Nonlocal)) for g in n.names}
        for holder, f, lst in _stmt_lists(fn):
            for k, st in enumerate(lst):
                if isinstance(st, ast.Assign) and len(st.targets) == 1 and isinstance(st.targets[0], ast.Name) and st.targets[0].id not in globs and st.targets[0].id not in seen and holder is fn:
                    seen.add(st.targets[0].id)
                    lst[k] = ast.copy_location(ast.AnnAssign(target=st.targets[0], annotation=ast.Constant(value="object"), value=st.value, simple=1), st)
                    changed += 1
    if changed:
        ast.fix_missing_locations(t2)
        yield f"annotate-assign:{fn_name}", ast.unparse(t2)


def twins_chain_compare(fn_name, src):
    """a OP b OP c  ->  a OP b and b OP c (b pure);   a OP b and b OP c  ->  a OP b OP c"""
    def split_ok(n):
        return isinstance(n, ast.Compare) and len(n.ops) == 2 and _pure(n.comparators[0])
    def merge_ok(n):
        return (isinstance(n, ast.BoolOp) and isinstance(n.op, ast.And) and len(n.values) == 2 and all(isinstance(v, ast.Compare) and len(v.ops) == 1 for v in n.values)
                and _pure(n.values[0].comparators[0]) and ast.dump(n.values[0].comparators[0]) == ast.dump(n.values[1].left)
                and all(isinstance(v.ops[0], (ast.Lt, ast.LtE, ast.Gt, ast.GtE, ast.Eq)) for v in n.values))
    tree = ast.parse(src)
    sites = [n for n in ast.walk(tree) if split_ok(n) or merge_ok(n)]
    for i in range(len(sites)):
        if not _want(i):
            continue
        t2 = ast.parse(src)
        class T(ast.NodeTransformer):
            k = -1
            def generic_visit(self, node):
                node = super().generic_visit(node)
                if split_ok(node) or merge_ok(node):
                    T.k += 1
                    if T.k == i:
                        if isinstance(node, ast.Compare):
                            return ast.BoolOp(op=ast.And(), values=[ast.Compare(left=node.left, ops=[node.ops[0]], comparators=[node.comparators[0]]),
                                                                   ast.Compare(left=copy.deepcopy(node.comparators[0]), ops=[node.ops[1]], comparators=[node.comparators[1]])])
                        a, b = node.values
                        return ast.Compare(left=a.left, ops=[a.ops[0], b.ops[0]], comparators=[a.comparators[0], b.comparators[0]])
                return node
        T.k = -1
        # count in the same (post-order) order as the transformer visits
        T().visit(t2)
        ast.fix_missing_locations(t2)
        yield f"chain-compare:{fn_name}:{i}", ast.unparse(t2)


def twins_extract_temp(fn_name, src):
    """x = f(<pure expr>, ...)  ->  _tmp = <pure expr>; x = f(_tmp, ...)   (first positional argument of a call whose
    callee is a plain name or attribute chain of names; the hoisted expression is pure, so evaluating it one step
    earlier changes nothing)"""
    def site(st):
        if isinstance(st, (ast.Assign, ast.Return, ast.Expr, ast.AugAssign)) and isinstance(getattr(st, "value", None), ast.Call):
            c = st.value
            f = c.func
            while isinstance(f, ast.Attribute):
                f = f.value
            if isinstance(f, ast.Name) and c.args and isinstance(c.args[0], (ast.BinOp, ast.Subscript, ast.Compare, ast.BoolOp, ast.IfExp)) and _pure(c.args[0]):
                if isinstance(st, ast.AugAssign):
                    return False
                return True
        return False
    tree = ast.parse(src)
    n_sites = sum(1 for fn in _functions(tree) for _, _, lst in _stmt_lists(fn) for st in lst if site(st))
    for i in range(n_sites):
        if not _want(i):
            continue
        t2 = ast.parse(src)
        k = -1
        done = False
        for fn in _functions(t2):
            for _, _, lst in _stmt_lists(fn):
                for j, st in enumerate(lst):
                    if site(st):
                        k += 1
                        if k == i and not done:
                            tmp = ast.Assign(targets=[ast.Name(id="hoisted_value", ctx=ast.Store())], value=st.value.args[0])
                            st.value.args[0] = ast.Name(id="hoisted_value", ctx=ast.Load())
                            lst.insert(j, ast.copy_location(tmp, st))
                            done = True
                            break
                if done:
                    break
            if done:
                break
        if done:
            ast.fix_missing_locations(t2)
            yield f"extract-temp:{fn_name}:{i}", ast.unparse(t2)


def twins_return_ifexp(fn_name, src):
    """if c: return a  /  return b   ->  return a if c else b     and the reverse"""
    def fwd(lst, j):
        return (j + 1 < len(lst) and isinstance(lst[j], ast.If) and not lst[j].orelse and len(lst[j].body) == 1 and isinstance(lst[j].body[0], ast.Return) and lst[j].body[0].value is not None
                and isinstance(lst[j + 1], ast.Return) and lst[j + 1].value is not None)
    def rev(lst, j):
        return isinstance(lst[j], ast.Return) and isinstance(lst[j].value, ast.IfExp)
    tree = ast.parse(src)
    n_sites = sum(1 for fn in _functions(tree) for _, _, lst in _stmt_lists(fn) for j in range(len(lst)) if fwd(lst, j) or rev(lst, j))
    for i in range(n_sites):
        if not _want(i):
            continue
        t2 = ast.parse(src)
        k = -1
        done = False
        for fn in _functions(t2):
            for _, _, lst in _stmt_lists(fn):
                for j in range(len(lst)):
                    if fwd(lst, j) or rev(lst, j):
                        k += 1
                        if k == i and not done:
                            if fwd(lst, j):
                                new = ast.Return(value=ast.IfExp(test=lst[j].test, body=lst[j].body[0].value, orelse=lst[j + 1].value))
                                lst[j:j + 2] = [ast.copy_location(new, lst[j])]
                            else:
                                e = lst[j].value
                                lst[j:j + 1] = [ast.copy_location(ast.If(test=e.test, body=[ast.Return(value=e.body)], orelse=[]), lst[j]), ast.copy_location(ast.Return(value=e.orelse), lst[j])]
                            done = True
                            break
                if done:
                    break
            if done:
                break
        if done:
            ast.fix_missing_locations(t2)
            yield f"return-ifexp:{fn_name}:{i}", ast.unparse(t2)


def twins_swap_independent(fn_name, src):
    """a = e1; b = e2  ->  b = e2; a = e1   for adjacent assignments to distinct plain names with pure right sides
    that do not read each other's target"""
    def names(e):
        return {x.id for x in ast.walk(e) if isinstance(x, ast.Name)}
    def ok(lst, j):
        if j + 1 >= len(lst):
            return False
        a, b = lst[j], lst[j + 1]
        if not all(isinstance(s, ast.Assign) and len(s.targets) == 1 and isinstance(s.targets[0], ast.Name) and _pure(s.value) for s in (a, b)):
            return False
        ta, tb = a.targets[0].id, b.targets[0].id
        return ta != tb and ta not in names(b.value) and tb not in names(a.value)
    tree = ast.parse(src)
    n_sites = sum(1 for fn in _functions(tree) for _, _, lst in _stmt_lists(fn) for j in range(len(lst)) if ok(lst, j))
    for i in range(n_sites):
        if not _want(i):
            continue
        t2 = ast.parse(src)
        k = -1
        done = False
        for fn in _functions(t2):
            for _, _, lst in _stmt_lists(fn):
                for j in range(len(lst)):
                    if ok(lst, j):
                        k += 1
                        if k == i and not done:
                            lst[j], lst[j + 1] = lst[j + 1], lst[j]
                            done = True
                            break
                if done:
                    break
            if done:
                break
        if done:
            yield f"swap-independent:{fn_name}:{i}", ast.unparse(t2)


def twins_reorder_elif(fn_name, src):
    """if x == 'a': A elif x == 'b': B [else: C]  ->  the same chain with its first two arms exchanged (the tests compare
    one side-effect-free expression with distinct constants, so exactly one arm can fire whatever the order)"""
    def chain_of(n):
        arms = []
        cur = n
        while True:
            arms.append(cur)
            if len(cur.orelse) == 1 and isinstance(cur.orelse[0], ast.If):
                cur = cur.orelse[0]
            else:
                break
        return arms

    def eligible(n, parent_is_elif):
        if not isinstance(n, ast.If) or parent_is_elif:
            return False
        arms = chain_of(n)
        if len(arms) < 2:
            return False
        subj, consts = None, set()
        for a in arms[:2]:
            t = a.test
            if not (isinstance(t, ast.Compare) and len(t.ops) == 1 and isinstance(t.ops[0], ast.Eq) and isinstance(t.comparators[0], ast.Constant) and _pure(t.left)):
                return False
            k = ast.dump(t.left)
            if subj is None:
                subj = k
            if k != subj or repr(t.comparators[0].value) in consts:
                return False
            consts.add(repr(t.comparators[0].value))
        return True

    def sites(tree):
        out = []
        elifs = set()
        for n in ast.walk(tree):
            if isinstance(n, ast.If) and len(n.orelse) == 1 and isinstance(n.orelse[0], ast.If):
                elifs.add(id(n.orelse[0]))
        for n in ast.walk(tree):
            if eligible(n, id(n) in elifs):
                out.append(n)
        return out

    n_sites = len(sites(ast.parse(src)))
    for i in range(n_sites):
        if not _want(i):
            continue
        t2 = ast.parse(src)
        a = sites(t2)[i]
        b = a.orelse[0]
        a.test, b.test = b.test, a.test
        a.body, b.body = b.body, a.body
        yield f"reorder-elif:{fn_name}:{i}", ast.unparse(t2)


def twins_kw_to_positional(fn_name, src):
    """f(a, name=v)  ->  f(a, v)  when f is a function or class of the package whose parameter at that position is `name`
    (resolved by the unique definition of that name in the analysed files)"""
    defs = {}
    for other in PY_TARGETS:
        try:
            tr = ast.parse(_read(other))
        except (FileNotFoundError, SyntaxError):
            continue
        for n in tr.body:
            if isinstance(n, ast.FunctionDef):
                defs.setdefault(n.name, []).append([a.arg for a in n.args.posonlyargs + n.args.args])
            elif isinstance(n, ast.ClassDef):
                for m in n.body:
                    if isinstance(m, ast.FunctionDef) and m.name == "__init__":
                        defs.setdefault(n.name, []).append([a.arg for a in m.args.posonlyargs + m.args.args][1:])

    def site(c):
        if not (isinstance(c, ast.Call) and isinstance(c.func, ast.Name) and c.keywords and len(defs.get(c.func.id, [])) == 1):
            return False
        if any(isinstance(a, ast.Starred) for a in c.args) or any(k.arg is None for k in c.keywords):
            return False
        ps = defs[c.func.id][0]
        return len(c.args) < len(ps) and c.keywords[0].arg == ps[len(c.args)]

    tree = ast.parse(src)
    n_sites = sum(1 for c in ast.walk(tree) if site(c))
    for i in range(n_sites):
        if not _want(i):
            continue
        t2 = ast.parse(src)
        c = [x for x in ast.walk(t2) if site(x)][i]
        c.args.append(c.keywords.pop(0).value)
        yield f"kw-to-positional:{fn_name}:{i}", ast.unparse(t2)


def twins_pyx():
    for fn, old, new in PYX_RENAMES:
        s = _read(fn)
        if re.search(rf"\b{old}\b", s):
            yield f"pyx-rename:{fn}:{old}", fn, re.sub(rf"\b{old}\b", new, s)
    for fn in ("_align.pyx", "qualtrim.pyx", "_kmer_finder.pyx", "info.pyx"):
        yield f"pyx-shift-lines:{fn}", fn, "# moved\n\n" + _read(fn)
    h = _read("expected_errors.h")
    yield "header-comment", "expected_errors.h", "/* a comment */\n" + h
    yield "header-rename-accumulator", "expected_errors.h", h.replace("expected_errors3", "acc_d")


FAMILIES = {
    "reformat": twins_unparse,
    "rename-local": twins_rename_local,
    "flip-compare": twins_flip_compare,
    "negate-if": twins_negate_if,
    "ifexp-to-if": twins_ifexp_to_if,
    "augassign": twins_augassign,
    "permissive": twins_extra_handler_and_filter,
    "else-after-jump": twins_else_after_jump,
    "nested-and": twins_nested_and,
    "demorgan": twins_demorgan,
    "annotate-assign": twins_annotate_assign,
    "chain-compare": twins_chain_compare,
    "extract-temp": twins_extract_temp,
    "return-ifexp": twins_return_ifexp,
    "swap-independent": twins_swap_independent,
    "reorder-elif": twins_reorder_elif,
    "kw-to-positional": twins_kw_to_positional,
}


def gen_twins(families=None, root=None, files=None, shard=None):
    global _ROOT, _SHARD
    _ROOT = root
    _SHARD = shard
    for fam, gen in FAMILIES.items():
        if families and fam not in families:
            continue
        if shard is not None and shard[0] != 0 and fam in ("reformat", "permissive", "annotate-assign"):
            continue  # unsharded families: built by shard 0 only
        for fn in PY_TARGETS:
            if files is not None and fn not in files:
                continue
            try:
                src = _read(fn)
            except FileNotFoundError:
                continue
            for tid, new in gen(fn, src):
                if new != src:
                    yield tid, fn, new
    if (not families or "pyx" in families) and (shard is None or shard[0] == 0):
        for tid, fn, new in twins_pyx():
            if files is None or fn in files:
                yield tid, fn, new


# ---------------------------------------------------------------------------
PROPS = None
VERBOSE = False


class _Timeout(BaseException):
    pass


def _alarm(signum, frame):
    raise _Timeout()


def run_one(job):
    tid, fn, new = job
    import signal

    signal.signal(signal.SIGALRM, _alarm)
    signal.alarm(int(os.environ.get("SA_TWIN_TIMEOUT", "300")))
    try:
        return _run_one(job)
    except _Timeout:
        return tid, {"engine": (2, ["timeout: the analysis of this variant did not finish"])}, 300.0
    finally:
        signal.alarm(0)


def _run_one(job):
    tid, fn, new = job
    from .__main__ import run_property

    t0 = time.time()
    try:
        repo = Repo(overrides={fn: new})
    except Exception as e:  # noqa: BLE001
        return tid, {"engine": (2, [f"front end: {type(e).__name__}: {e}"])}, time.time() - t0
    res = {}
    for pid in (PROPS or ALL):
        rc, rep = run_property(pid, "quick", 0, repo=repo, write_evidence=False, quiet=True)
        if rc != 0:
            msgs = [f"{o.state} {o.rule} {o.construct}: {(o.why or '')[:160]}" + (f" facts={str(o.facts)[:600]}" if VERBOSE else "") for o in rep.obligations if o.state != "DISCHARGED"]
            from .core import load_known_findings, _matches

            kf = load_known_findings()["known"]
            msgs = [m for m, o in zip(msgs, [o for o in rep.obligations if o.state != "DISCHARGED"]) if not any(_matches(e, o) for e in kf)]
            res[pid] = (rc, msgs[:4])
    return tid, res, time.time() - t0


def main(argv=None):
    argv = argv or sys.argv[1:]
    mode = argv[0] if argv else "twins"
    fams = None
    limit = None
    jobs = 16
    if "--family" in argv:
        fams = argv[argv.index("--family") + 1].split(",")
    if "--limit" in argv:
        limit = int(argv[argv.index("--limit") + 1])
    if "-j" in argv:
        jobs = int(argv[argv.index("-j") + 1])
    global PROPS, VERBOSE
    if "--props" in argv:
        PROPS = argv[argv.index("--props") + 1].split(",")
    VERBOSE = "-v" in argv
    if mode == "twins":
        # analyse a private copy of the sources, taken now: the run takes an hour, and a change to the working tree in the
        # meantime (a repair, a seeded change applied for an experiment) would be mistaken for an alarm on a benign twin
        import atexit
        import shutil
        import tempfile

        snap = tempfile.mkdtemp(prefix="sa-selftest-")
        atexit.register(shutil.rmtree, snap, ignore_errors=True)
        shutil.copytree(os.path.join(repo_root(), "src"), os.path.join(snap, "src"), ignore=shutil.ignore_patterns("*.so", "*.c", "build", "__pycache__", "*.egg-info"))
        for extra in ("doc", "pyproject.toml", "setup.py"):
            sp = os.path.join(repo_root(), extra)
            if os.path.isdir(sp):
                shutil.copytree(sp, os.path.join(snap, extra))
            elif os.path.exists(sp):
                shutil.copy(sp, os.path.join(snap, extra))
        os.environ["VERIF_REPO"] = snap
        global _ROOT
        _ROOT = snap
        work = list(gen_twins(fams))
        if "--only" in argv:
            pats = argv[argv.index("--only") + 1].split(",")
            work = [w for w in work if any(p_ in w[0] for p_ in pats)]
        if limit:
            import random

            random.Random(int(os.environ.get("VERIF_SEED", "0") or 0)).shuffle(work)
            work = work[:limit]
        print(f"{len(work)} benign twins, {jobs} jobs")
        alarms = 0
        t0 = time.time()
        by_rule = {}
        with multiprocessing.Pool(jobs) as pool:
            for tid, res, dt in pool.imap_unordered(run_one, work, chunksize=2):
                if res:
                    alarms += 1
                    for pid, (rc, msgs) in res.items():
                        print(f"TWIN-ALARM {tid} {pid} exit={rc} {msgs[:2]}")
                        for m in msgs:
                            k = " ".join(m.split()[:2])
                            by_rule[k] = by_rule.get(k, 0) + 1
        print(f"twins={len(work)} alarming={alarms} wall={time.time() - t0:.0f}s")
        for k, v in sorted(by_rule.items(), key=lambda kv: -kv[1])[:40]:
            print(f"  {v:4d} {k}")
        return 0 if alarms == 0 else 2
    print("unknown mode")
    return 2


if __name__ == "__main__":
    sys.exit(main())
