"""
Thorough tier: the quick rules plus a sweep over a neighbourhood of program variants of the CURRENT tree.

A static rule can fail in two ways that a single run on one tree never shows: it can be deaf (it would also pass
on a tree that breaks the property) or brittle (it would fire on a tree that does not).  The thorough tier measures
both for the property at hand, on every run, from /repo's current sources:

  sensitivity  every confirmed breaking change under seeded/ that this property's rules are on record as catching
               (seeded/RESULTS.json) is applied to a scratch copy of the package sources (temp dir, removed
               afterwards; /repo is never touched and nothing is executed) and the rules must report a violation
               that the unchanged tree does not have.  A patch that no longer applies to the current tree is skipped
               and counted as such.
  stability    behaviour-preserving rewrites (reformatting, renaming a local, mirrored comparisons, negated ifs,
               conditional expression <-> if, augmented assignment, an extra unreachable handler) of every source
               file the rules consulted are analysed in memory; the rules must stay silent on all of them.

A deaf or brittle rule is an analysis error (exit 2), never a VIOLATION: it says the checker cannot be trusted for
this property on this tree, not that cutadapt is wrong.  Both sweeps are skipped when the unchanged tree already
has a violation (the run fails with that violation anyway).
"""
from __future__ import annotations

import json
import multiprocessing
import os
import shutil
import subprocess
import tempfile
import time

VERIF = os.path.dirname(os.path.dirname(os.path.abspath(__file__)))
SEEDED = os.path.join(VERIF, "seeded")


def _relevant_seeds(pid):
    try:
        res = json.load(open(os.path.join(SEEDED, "RESULTS.json")))
    except (OSError, ValueError):
        return []
    out = []
    for sid, r in sorted(res.items()):
        rules = [k for k in r.get("rules", {}) if k.split(".")[0] == pid]
        if rules and os.path.exists(os.path.join(SEEDED, sid, "patch.diff")):
            out.append((sid, rules))
    return out


def _run_seed(job):
    pid, sid, root = job
    from .__main__ import run_property
    from .repo import Repo

    tmp = tempfile.mkdtemp(prefix="sa-thorough.")
    try:
        dst = os.path.join(tmp, "src", "cutadapt")
        os.makedirs(dst)
        pkg = os.path.join(root, "src", "cutadapt")
        for fn in os.listdir(pkg):
            if fn.endswith((".py", ".pyx", ".pyi", ".h")):
                shutil.copy(os.path.join(pkg, fn), dst)
        r = subprocess.run(["git", "apply", "--include=src/cutadapt/*", os.path.join(SEEDED, sid, "patch.diff")], cwd=tmp, capture_output=True, text=True)
        if r.returncode != 0:
            return sid, "skipped", "patch does not apply to the current tree"
        try:
            repo = Repo(root=tmp)
        except Exception as e:  # noqa: BLE001
            return sid, "front-end", f"{type(e).__name__}: {e}"
        rc, rep = run_property(pid, "quick", 0, repo=repo, write_evidence=False, quiet=True)
        fired = sorted({f"{o.rule} {o.construct}"[:110] for o in rep.obligations if o.state == "VIOLATED"})
        return sid, ("caught" if rc == 1 and fired else f"exit {rc}"), fired[:3] or [f"{o.rule} {o.construct}: {o.why}"[:160] for o in rep.obligations if o.state != "DISCHARGED"][:2]
    finally:
        shutil.rmtree(tmp, ignore_errors=True)


def _run_twin(job):
    import signal

    from .selftest import _Timeout, _alarm

    signal.signal(signal.SIGALRM, _alarm)
    signal.alarm(int(os.environ.get("SA_TWIN_TIMEOUT", "300")))
    try:
        return _run_twin_inner(job)
    except _Timeout:
        return job[1], 2, ["timeout: the analysis of this variant did not finish"]
    finally:
        signal.alarm(0)


def _run_twin_inner(job):
    pid, tid, fn, new, root = job
    from .__main__ import run_property
    from .repo import Repo

    try:
        repo = Repo(root=root, overrides={fn: new}, base=_BASE)
    except Exception as e:  # noqa: BLE001
        return tid, 2, [f"front end: {type(e).__name__}: {e}"]
    rc, rep = run_property(pid, "quick", 0, repo=repo, write_evidence=False, quiet=True)
    if rc == 0:
        return tid, 0, []
    from .core import _matches, load_known_findings

    kf = load_known_findings()["known"]
    msgs = [f"{o.state} {o.rule} {o.construct}"[:140] for o in rep.obligations if o.state != "DISCHARGED" and not any(_matches(e, o) for e in kf)]
    return tid, rc, msgs[:3]


def _run_twin_shard(job):
    pid, fam, fn, shard, root = job
    from . import selftest

    out = []
    for tid, f, new in selftest.gen_twins([fam], root=root, files={fn}, shard=shard):
        out.append(_run_twin((pid, tid, f, new, root)))
    return out


_BASE = None  # the Repo of the unchanged tree; inherited by the forked workers, which share its parsed modules


def sweep(pid, report, repo, jobs=None, twin_limit=None):
    global _BASE
    _BASE = repo
    """Run both sweeps for one property; record the outcome in report.selftest and turn deaf / brittle rules into
    analysis errors."""
    from . import selftest

    jobs = jobs or min(16, os.cpu_count() or 4)
    t0 = time.time()
    root = repo.root
    touched = sorted(getattr(repo, "touched", set()))
    out = {"files_consulted": touched}
    # ---- sensitivity ----
    seeds = _relevant_seeds(pid)
    ctx = multiprocessing.get_context("fork")
    with ctx.Pool(jobs) as pool:
        sres = pool.map(_run_seed, [(pid, sid, root) for sid, _ in seeds], chunksize=1)
        deaf = [(sid, st, info) for sid, st, info in sres if st not in ("caught", "skipped")]
        out["sensitivity"] = {
            "seeded_changes": len(seeds),
            "caught": sum(1 for _, st, _ in sres if st == "caught"),
            "skipped_patch_does_not_apply": [sid for sid, st, _ in sres if st == "skipped"],
            "not_caught": [{"seed": sid, "status": st, "info": info} for sid, st, info in deaf],
            "samples": [{"seed": sid, "fired": info} for sid, st, info in sres if st == "caught"][:6],
        }
        # ---- stability ----  (twins are generated inside the workers: one job = one family x file x shard)
        fams = list(selftest.FAMILIES) + ["pyx"]
        shards = 6
        jobs_ = []
        for fam in fams:
            files = [f for f in touched if (f.endswith(".py") if fam != "pyx" else not f.endswith(".py"))]
            for f in files:
                for k in range(shards if fam not in ("reformat", "permissive", "pyx") else 1):
                    jobs_.append((pid, fam, f, (k, shards) if fam not in ("reformat", "permissive", "pyx") else None, root))
        tres = [x for part in pool.imap_unordered(_run_twin_shard, jobs_, chunksize=1) for x in part]
    work = tres
    brittle = [(tid, rc, msgs) for tid, rc, msgs in tres if rc != 0]
    fam = {}
    for tid, rc, msgs in tres:
        f = tid.split(":")[0]
        fam[f] = fam.get(f, 0) + 1
    out["stability"] = {"benign_variants": len(work), "by_family": fam, "alarming": [{"variant": tid, "exit": rc, "reports": msgs} for tid, rc, msgs in brittle][:10]}
    out["wall_s"] = round(time.time() - t0, 1)
    report.selftest = out
    for sid, st, info in deaf:
        report.unrecognised(pid + ".SELF", f"sensitivity: seeded change {sid}", f"the rules of {pid} no longer report the confirmed breaking change {sid} ({st}: {info}); the check would be deaf to it", "seeded/" + sid)
    for tid, rc, msgs in brittle[:5]:
        report.unrecognised(pid + ".SELF", f"stability: {tid}", f"a behaviour-preserving rewrite makes the rules report {msgs}; the check is brittle", "sa/selftest.py")
    return out
