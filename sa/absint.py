"""
A1 + A3: abstract execution of a code fragment over a finite abstract domain.

The fragment (a statement list, usually a function body or a loop body) is executed
abstractly.  Integers are linear forms over opaque atoms (lin.Lin); objects are opaque
(`Obj`) with attribute access giving new opaque objects.  Whenever the control flow
needs the truth of something that the current *valuation* does not decide - the sign of
a linear difference, `x is None`, truthiness of an opaque value, `isinstance`, `in` -
the executor forks on that *atom* (signs: -,0,+ ; booleans: T,F).  The result is the
complete decision tree of the fragment: a list of rows (partial valuation, outcome)
such that every total valuation is matched by exactly one row.  An outcome is the
ordered list of effects (stores to attributes/subscripts, augmented assignments, calls
made as statements), the exit kind (fall-through, return value, break, continue, raise)
and the final values of the local names.

No concrete data is ever run through the code; comparisons are decided by the
valuation only.  Infeasible combinations of sign atoms (e.g. a-b>0, b-c>0, a-c<0) are
pruned by a small-model search over the base atoms (every kept valuation has an integer
model in a small box; if a valuation has more base atoms than the search bound it is
kept, which can only add rows).
"""
from __future__ import annotations

import ast
import itertools
import re
from fractions import Fraction

from .core import Unrecognised
from .lin import Lin, _lin
from .repo import src, chain

MAX_ROWS = 20000
EXPLORE_BUDGET_S = 240  # wall-clock limit of one exploration; beyond it the fragment is reported as unrecognised (fail closed)
MAX_INLINE_DEPTH = 3


# ---------------------------------------------------------------------------
# abstract values
# ---------------------------------------------------------------------------
class Const:
    __slots__ = ("value",)

    def __init__(self, value):
        self.value = value

    def key(self):
        return repr(self.value)

    def __repr__(self):
        return f"Const({self.value!r})"


class Obj:
    """Opaque object, identified by a canonical key."""

    __slots__ = ("k", "cls", "nonnull")

    def __init__(self, k, cls=None, nonnull=False):
        self.k = k
        self.cls = cls
        self.nonnull = nonnull

    def key(self):
        return self.k

    def __repr__(self):
        return f"Obj({self.k})"


class Tup:
    __slots__ = ("items", "kind")

    def __init__(self, items, kind="tuple"):
        self.items = list(items)
        self.kind = kind

    def key(self):
        o, c = ("(", ")") if self.kind == "tuple" else ("[", "]")
        return o + ", ".join(vkey(i) for i in self.items) + c

    def __repr__(self):
        return f"Tup{self.key()}"


class Ite:
    """Value that depends on an undecided condition is never built: forks decide. (kept for builder)"""


def vkey(v) -> str:
    if isinstance(v, Lin):
        return v.key()
    if isinstance(v, (Const, Obj, Tup)):
        return v.key()
    if isinstance(v, BoundMethod):
        return f"{v.selfkey}.{v.name}"
    if isinstance(v, Func):
        return f"<fn {v.name}>"
    return repr(v)


class BoundMethod:
    __slots__ = ("selfkey", "cls", "name", "selfval")

    def __init__(self, selfval, cls, name):
        self.selfval = selfval
        self.selfkey = vkey(selfval)
        self.cls = cls
        self.name = name


class Func:
    __slots__ = ("name", "node", "closure")

    def __init__(self, name, node, closure=None):
        self.name = name
        self.node = node
        self.closure = closure


# ---------------------------------------------------------------------------
# atoms and valuations
# ---------------------------------------------------------------------------
class NeedAtom(Exception):
    def __init__(self, kind, key, payload=None):
        self.kind = kind  # 'sign' | 'bool'
        self.key = key
        self.payload = payload


class Stop(Exception):
    """Control-flow signal inside the executor."""

    def __init__(self, kind, value=None):
        self.kind = kind
        self.value = value


class Row:
    __slots__ = ("valuation", "effects", "exit", "env", "calls", "order")

    def __init__(self, valuation, effects, exit_, env, calls, order):
        self.valuation = dict(valuation)
        self.effects = effects
        self.exit = exit_
        self.env = env
        self.calls = calls
        self.order = order  # atoms in the order they were asked

    def effect_keys(self):
        return [(e[0], e[1], e[2]) for e in self.effects]

    def describe(self):
        return {
            "valuation": {k: _show(v) for k, v in self.valuation.items()},
            "effects": [list(map(str, e[:3])) for e in self.effects],
            "exit": [self.exit[0], vkey(self.exit[1]) if len(self.exit) > 1 and self.exit[1] is not None else None],
        }


def _show(v):
    if v is True:
        return "T"
    if v is False:
        return "F"
    return {-1: "<0", 0: "=0", 1: ">0"}.get(v, str(v))


class Executor:
    """
    Executes statements abstractly under a fixed (partial) valuation; raises NeedAtom when
    an undecided atom is needed.
    """

    def __init__(self, repo, valuation, *, integer=True, self_cls=None, inline=True, pure_calls=(), call_hook=None,
                 attr_hook=None, loop_mode="fork", inline_funcs=None, assume_asserts=True):
        self.repo = repo
        self.val = valuation
        self.integer = integer
        self.self_cls = self_cls
        self.inline = inline
        self.effects = []
        self.calls = []
        self.membership = {}  # (container key, item key) -> bool: what this path itself stored into / deleted from an opaque container
        self.order = []
        self.depth = 0
        self.pure_calls = set(pure_calls)
        self.call_hook = call_hook
        self.attr_hook = attr_hook
        self.loop_mode = loop_mode
        self.loop_depth = 0
        self.inline_funcs = inline_funcs or {}
        self.assume_asserts = assume_asserts

    # -- atoms ---------------------------------------------------------------
    def ask_bool(self, key):
        if key in self.val:
            self.order.append(key)
            return self.val[key]
        raise NeedAtom("bool", key)

    def ask_sign(self, d: Lin):
        """sign of linear form d  (-1, 0, +1)"""
        if d.is_const():
            v = d.const
            return (v > 0) - (v < 0)
        p, flipped = d.normalised_sign_form()
        key = "sign:" + p.key()
        if key not in self.val:
            raise NeedAtom("sign", key, p)
        s = self.val[key]
        return -s if flipped else s

    def compare(self, op, l: Lin, r: Lin):
        d = l - r
        # integer normalisation: a <= b-1  ==  a < b   etc.
        if self.integer and not d.is_const():
            allint = all(c.denominator == 1 for c in d.terms.values()) and d.const.denominator == 1
            if allint:
                from math import gcd

                g = 0
                for c in d.terms.values():
                    g = gcd(g, abs(int(c)))
                if g == 1 or True:
                    c0 = d.const
                    if isinstance(op, ast.LtE) and c0 == 1:
                        d, op = d - 1, ast.Lt()
                    elif isinstance(op, ast.GtE) and c0 == -1:
                        d, op = d + 1, ast.Gt()
                    elif isinstance(op, ast.Gt) and c0 == 1:
                        d, op = d - 1, ast.GtE()
                    elif isinstance(op, ast.Lt) and c0 == -1:
                        d, op = d + 1, ast.LtE()
        s = self.ask_sign(d)
        if isinstance(op, ast.Lt):
            return s < 0
        if isinstance(op, ast.LtE):
            return s <= 0
        if isinstance(op, ast.Gt):
            return s > 0
        if isinstance(op, ast.GtE):
            return s >= 0
        if isinstance(op, ast.Eq):
            return s == 0
        if isinstance(op, ast.NotEq):
            return s != 0
        raise Unrecognised(f"comparison operator {type(op).__name__} on integers")

    # -- numeric view ----------------------------------------------------------
    def num(self, v, node=None) -> Lin:
        if isinstance(v, Lin):
            return v
        if isinstance(v, Const):
            if isinstance(v.value, bool):
                return Lin.k(int(v.value))
            if isinstance(v.value, (int,)):
                return Lin.k(v.value)
            if isinstance(v.value, float):
                return _lin(v.value)
            raise Unrecognised(f"non-numeric constant {v.value!r} used as number" + (f" in {src(node)}" if node else ""))
        if isinstance(v, Obj):
            return Lin.atom(v.k)
        raise Unrecognised(f"value {vkey(v)} used as number" + (f" in {src(node)}" if node is not None else ""))

    # -- truthiness --------------------------------------------------------------
    def truth(self, v, node=None) -> bool:
        if isinstance(v, bool):
            return v
        if isinstance(v, Const):
            return bool(v.value)
        if isinstance(v, Lin):
            if v.is_const():
                return v.const != 0
            return self.ask_sign(v) != 0
        if isinstance(v, Tup):
            return len(v.items) > 0
        if isinstance(v, Obj):
            if self.val.get("isnone:" + v.k) is True:
                return False  # None is falsy
            return self.ask_bool("truthy:" + v.k)
        if isinstance(v, (BoundMethod, Func)):
            return True
        raise Unrecognised(f"truthiness of {vkey(v)}")

    def is_none(self, v) -> bool:
        if isinstance(v, Const):
            return v.value is None
        if isinstance(v, Obj):
            if v.nonnull:
                return False
            if self.val.get("truthy:" + v.k) is True:
                return False  # a truthy value is not None
            return self.ask_bool("isnone:" + v.k)
        return False

    # -- expressions -------------------------------------------------------------
    def ev(self, node, env):
        m = getattr(self, "e_" + type(node).__name__, None)
        if m is None:
            raise Unrecognised(f"unsupported expression {type(node).__name__}: {src(node)}")
        return m(node, env)

    def e_Constant(self, node, env):
        v = node.value
        if isinstance(v, bool) or v is None or isinstance(v, (str, bytes, float)):
            if isinstance(v, float) and v == int(v):
                return Lin.k(int(v))
            return Const(v)
        if isinstance(v, int):
            return Lin.k(v)
        return Const(v)

    def e_Name(self, node, env):
        if node.id in env:
            return env[node.id]
        if node.id in ("True", "False", "None"):
            return Const({"True": True, "False": False, "None": None}[node.id])
        return Obj(node.id)

    def e_Attribute(self, node, env):
        ch = chain(node)
        if ch is not None and ch in env:
            return env[ch]
        base = self.ev(node.value, env)
        if self.attr_hook is not None:
            r = self.attr_hook(self, base, node.attr, node)
            if r is not None:
                return r
        if isinstance(base, Obj):
            k = f"{base.k}.{node.attr}"
            if k in env:
                return env[k]
            if base.cls is not None and self.repo is not None:
                c, f = self.repo.method(base.cls, node.attr)
                if f is not None:
                    return BoundMethod(base, base.cls, node.attr)
            return Obj(k)
        if isinstance(base, Const) and isinstance(base.value, str):
            return Obj(f"{base.key()}.{node.attr}")
        if isinstance(base, Tup):
            return Obj(f"{base.key()}.{node.attr}")
        raise Unrecognised(f"attribute {node.attr} of {vkey(base)}")

    def e_Subscript(self, node, env):
        base = self.ev(node.value, env)
        if isinstance(node.slice, ast.Slice):
            lo = self.ev(node.slice.lower, env) if node.slice.lower is not None else None
            hi = self.ev(node.slice.upper, env) if node.slice.upper is not None else None
            st = self.ev(node.slice.step, env) if node.slice.step is not None else None
            if isinstance(base, Tup) and st is None and (lo is None or (isinstance(lo, Lin) and lo.is_int_const())) and (
                hi is None or (isinstance(hi, Lin) and hi.is_int_const())
            ):
                a = int(lo.const) if lo is not None else None
                b = int(hi.const) if hi is not None else None
                return Tup(base.items[a:b], base.kind)
            k = f"{vkey(base)}[{vkey(lo) if lo is not None else ''}:{vkey(hi) if hi is not None else ''}{(':' + vkey(st)) if st is not None else ''}]"
            return Obj(k)
        idx = self.ev(node.slice, env)
        if isinstance(base, Tup) and isinstance(idx, Lin) and idx.is_int_const():
            i = int(idx.const)
            try:
                return base.items[i]
            except IndexError:
                raise Unrecognised(f"index {i} out of range in {src(node)}")
        k = f"{vkey(base)}[{vkey(idx)}]"
        if k in env:
            return env[k]
        if getattr(self, "keyerror_mode", False) and isinstance(base, Obj) and isinstance(node.ctx, ast.Load) and not isinstance(idx, Lin):
            if not self.ask_bool(f"haskey:{k}"):
                raise Stop("raise", Const("KeyError"))
        return Obj(k)

    def e_Tuple(self, node, env):
        items = []
        for e in node.elts:
            if isinstance(e, ast.Starred):
                v = self.ev(e.value, env)
                if isinstance(v, Tup):
                    items.extend(v.items)
                else:
                    items.append(Obj("*" + vkey(v)))
            else:
                items.append(self.ev(e, env))
        return Tup(items, "tuple")

    def e_List(self, node, env):
        t = self.e_Tuple(node, env)
        t.kind = "list"
        return t

    def e_Set(self, node, env):
        t = self.e_Tuple(node, env)
        t.kind = "list"
        return t

    def e_Dict(self, node, env):
        return Obj("{" + ", ".join(f"{vkey(self.ev(k, env)) if k is not None else '**'}: {vkey(self.ev(v, env))}" for k, v in zip(node.keys, node.values)) + "}")

    def e_JoinedStr(self, node, env):
        return Obj("f" + repr(src(node)))

    def e_ListComp(self, node, env):
        if len(node.generators) == 1 and not node.generators[0].ifs:
            it = self.ev(node.generators[0].iter, env)
            if isinstance(it, Tup):
                out = []
                for item in it.items:
                    e2 = dict(env)
                    self.assign(node.generators[0].target, item, e2, node)
                    out.append(self.ev(node.elt, e2))
                return Tup(out, "list")
        return self.e_GeneratorExp(node, env)

    def e_GeneratorExp(self, node, env):
        # [f(x) for x in X] over an opaque X: the element expression is evaluated on a
        # representative element each(X), so that keys are built from values, not local names
        if len(node.generators) == 1 and not node.generators[0].ifs and isinstance(node, (ast.GeneratorExp, ast.ListComp)):
            try:
                it = self.ev(node.generators[0].iter, env)
                if isinstance(it, Tup):
                    out = []
                    for item in it.items:
                        e2 = dict(env)
                        self.assign(node.generators[0].target, item, e2, node)
                        out.append(self.ev(node.elt, e2))
                    return Tup(out, "list")
                if isinstance(it, Obj):
                    e2 = dict(env)
                    self.assign(node.generators[0].target, Obj(f"each({it.k})"), e2, node)
                    elt = self.ev(node.elt, e2)
                    return Obj(f"[{vkey(elt)}]")
            except (Unrecognised, NeedAtom):
                pass
        return Obj("[" + src(node) + "]")

    e_SetComp = e_DictComp = e_GeneratorExp

    def e_Lambda(self, node, env):
        return Obj("lambda:" + src(node))

    def e_UnaryOp(self, node, env):
        if isinstance(node.op, ast.Not):
            return Const(not self.truth(self.ev(node.operand, env), node.operand))
        v = self.ev(node.operand, env)
        if isinstance(node.op, ast.USub):
            return -self.num(v, node)
        if isinstance(node.op, ast.UAdd):
            return self.num(v, node)
        return Obj(f"~{vkey(v)}")

    def e_BinOp(self, node, env):
        l = self.ev(node.left, env)
        r = self.ev(node.right, env)
        op = node.op
        if isinstance(op, (ast.Add, ast.Sub, ast.Mult)):
            if isinstance(l, Tup) and isinstance(r, Tup) and isinstance(op, ast.Add):
                return Tup(l.items + r.items, l.kind)
            if isinstance(op, ast.Add) and (_is_str(l) or _is_str(r)):
                return Obj(f"{vkey(l)}+{vkey(r)}")
            if isinstance(op, ast.Mult) and (_is_str(l) or _is_str(r) or isinstance(l, Tup) or isinstance(r, Tup)):
                return Obj(f"{vkey(l)}*{vkey(r)}")
            try:
                a, b = self.num(l, node), self.num(r, node)
            except Unrecognised:
                return Obj(f"({vkey(l)}{_opsym(op)}{vkey(r)})")
            if isinstance(op, ast.Add):
                return a + b
            if isinstance(op, ast.Sub):
                return a - b
            return a * b
        if isinstance(op, (ast.FloorDiv, ast.Div, ast.Mod)):
            try:
                a, b = self.num(l, node), self.num(r, node)
            except Unrecognised:
                return Obj(f"({vkey(l)}{_opsym(op)}{vkey(r)})")
            if a.is_const() and b.is_const() and b.const != 0:
                if isinstance(op, ast.Div):
                    return Lin.k(a.const / b.const)
                if isinstance(op, ast.FloorDiv):
                    return Lin.k(a.const // b.const)
                return Lin.k(a.const % b.const)
            if isinstance(op, ast.Div) and b.is_const() and b.const != 0:
                return a.scale(1 / b.const)
            return Lin.atom(f"({a.key()}{_opsym(op)}{b.key()})")
        return Obj(f"({vkey(l)}{_opsym(op)}{vkey(r)})")

    def e_BoolOp(self, node, env):
        # Python's value semantics:  a and b  is a when a is falsy, else b;  a or b  is a when a is truthy, else b.
        # The last operand is returned as it is (it is not tested); in a condition the caller tests the result.
        is_and = isinstance(node.op, ast.And)
        for v in node.values[:-1]:
            val = self.ev(v, env)
            t = self.truth(val, v)
            if t != is_and:
                return val
        return self.ev(node.values[-1], env)

    def e_IfExp(self, node, env):
        if self.truth(self.ev(node.test, env), node.test):
            return self.ev(node.body, env)
        return self.ev(node.orelse, env)

    def e_Compare(self, node, env):
        left = self.ev(node.left, env)
        for op, rn in zip(node.ops, node.comparators):
            right = self.ev(rn, env)
            if not self.cmp1(op, left, right, node):
                return Const(False)
            left = right
        return Const(True)

    def cmp1(self, op, l, r, node) -> bool:
        if isinstance(op, (ast.Is, ast.IsNot)):
            if isinstance(r, Const) and r.value is None:
                res = self.is_none(l)
            elif isinstance(l, Const) and l.value is None:
                res = self.is_none(r)
            elif isinstance(l, Const) and isinstance(r, Const):
                res = l.value is r.value
            else:
                a, b = sorted([vkey(l), vkey(r)])
                res = True if a == b else self.ask_bool(f"is:{a}:{b}")
            return res if isinstance(op, ast.Is) else not res
        if isinstance(op, (ast.In, ast.NotIn)):
            if isinstance(r, Tup) and isinstance(l, (Const, Lin)) and all(isinstance(i, (Const, Lin)) for i in r.items) and (
                not isinstance(l, Lin) or l.is_const()
            ):
                res = any(vkey(l) == vkey(i) for i in r.items)
            elif isinstance(r, Tup) and isinstance(l, Obj):
                res = False
                for i in r.items:
                    if self.cmp1(ast.Eq(), l, i, node):
                        res = True
                        break
            elif (vkey(r), vkey(l)) in self.membership:
                res = self.membership[(vkey(r), vkey(l))]
            else:
                res = self.ask_bool(f"in:{vkey(l)}:{vkey(r)}")
            return res if isinstance(op, ast.In) else not res
        # ordering / equality
        numeric = lambda v: isinstance(v, Lin) or (isinstance(v, Const) and isinstance(v.value, (int, float)) and not isinstance(v.value, bool))
        if isinstance(l, Const) and isinstance(r, Const):
            a, b = l.value, r.value
            if isinstance(op, ast.Eq):
                return a == b
            if isinstance(op, ast.NotEq):
                return a != b
            try:
                return {ast.Lt: lambda: a < b, ast.LtE: lambda: a <= b, ast.Gt: lambda: a > b, ast.GtE: lambda: a >= b}[type(op)]()
            except TypeError:
                raise Unrecognised(f"cannot compare constants in {src(node)}")
        if isinstance(l, Tup) and isinstance(r, Tup) and isinstance(op, (ast.Eq, ast.NotEq)):
            if len(l.items) != len(r.items):
                return isinstance(op, ast.NotEq)
            eq = all(self.cmp1(ast.Eq(), a, b, node) for a, b in zip(l.items, r.items))
            return eq if isinstance(op, ast.Eq) else not eq
        if isinstance(l, Tup) and isinstance(r, Tup):
            # lexicographic
            for a, b in zip(l.items, r.items):
                if self.cmp1(ast.Eq(), a, b, node):
                    continue
                strict = ast.Lt() if isinstance(op, (ast.Lt, ast.LtE)) else ast.Gt()
                return self.cmp1(strict, a, b, node)
            la, lb = len(l.items), len(r.items)
            return {ast.Lt: la < lb, ast.LtE: la <= lb, ast.Gt: la > lb, ast.GtE: la >= lb}[type(op)]
        if isinstance(op, (ast.Eq, ast.NotEq)) and (
            (isinstance(l, Const) and not numeric(l)) or (isinstance(r, Const) and not numeric(r))
        ):
            # comparison of an opaque value with a non-numeric constant (string mode flags etc.)
            a, b = vkey(l), vkey(r)
            if isinstance(l, Const):
                a, b = b, a
            key = f"eq:{a}:{b}"
            if key in self.val:
                res = self.ask_bool(key)
            elif self.val.get("isnone:" + a) is True:
                res = False  # None equals no non-None constant
            elif self.val.get("truthy:" + a) is False and b not in ("''", "b''", "0", "False", "None"):
                res = False  # a falsy value equals no truthy constant
            elif any(k.startswith(f"eq:{a}:") and v is True and k != key for k, v in self.val.items()):
                res = False  # already known to equal a different constant
            else:
                res = self.ask_bool(key)
            return res if isinstance(op, ast.Eq) else not res
        if (numeric(l) or isinstance(l, Obj)) and (numeric(r) or isinstance(r, Obj)):
            return self.compare(op, self.num(l, node), self.num(r, node))
        a, b = vkey(l), vkey(r)
        if isinstance(op, (ast.Eq, ast.NotEq)):
            x, y = sorted([a, b])
            res = True if x == y else self.ask_bool(f"eq:{x}:{y}")
            return res if isinstance(op, ast.Eq) else not res
        raise Unrecognised(f"cannot compare {a} and {b} in {src(node)}")

    # -- calls ------------------------------------------------------------------
    def e_Call(self, node, env):
        fname = chain(node.func)
        if self.call_hook is not None:
            r = self.call_hook(self, node, env)
            if r is not None:
                return r
        # builtins with abstract meaning
        if isinstance(node.func, ast.Name) and node.func.id not in env:
            fn = node.func.id
            args = [self.ev(a, env) for a in node.args if not isinstance(a, ast.Starred)]
            if fn == "len" and len(args) == 1:
                a = args[0]
                if isinstance(a, Tup):
                    return Lin.k(len(a.items))
                if isinstance(a, Const) and isinstance(a.value, (str, bytes)):
                    return Lin.k(len(a.value))
                return Lin.atom(f"len({vkey(a)})")
            if fn in ("min", "max") and len(args) == 2 and not node.keywords:
                try:
                    a, b = self.num(args[0]), self.num(args[1])
                except Unrecognised:
                    return Obj(f"{fn}({vkey(args[0])}, {vkey(args[1])})")
                d = a - b
                if d.is_const():
                    if fn == "min":
                        return a if d.const <= 0 else b
                    return a if d.const >= 0 else b
                # decide by the valuation (forks): min/max become exact
                s = self.ask_sign(d)
                if fn == "min":
                    return a if s <= 0 else b
                return a if s >= 0 else b
            if fn == "int" and len(args) == 1:
                a = args[0]
                if isinstance(a, Lin) and a.is_const():
                    return Lin.k(int(a.const))
                if isinstance(a, Const) and isinstance(a.value, bool):
                    return Lin.k(int(a.value))
                return Lin.atom(f"int({vkey(a)})")
            if fn == "bool" and len(args) == 1:
                return Const(self.truth(args[0], node))
            if fn == "abs" and len(args) == 1:
                a = self.num(args[0])
                s = self.ask_sign(a)
                return a if s >= 0 else -a
            if fn == "isinstance" and len(args) == 2:
                a = args[0]
                cn = src(node.args[1])
                if isinstance(a, Obj) and a.cls is not None and self.repo is not None and isinstance(node.args[1], ast.Name):
                    if self.repo.is_subclass(a.cls, node.args[1].id):
                        return Const(True)
                if isinstance(a, Const) and cn in ("int", "str", "float", "bool", "bytes", "tuple", "list", "dict"):
                    # a literal's type is known (bool is an int in Python)
                    return Const(isinstance(a.value, {"int": int, "str": str, "float": float, "bool": bool, "bytes": bytes, "tuple": tuple, "list": list, "dict": dict}[cn]))
                return Const(self.ask_bool(f"isinstance:{vkey(a)}:{cn}"))
            if fn in ("__cast__",) and len(node.args) == 2:
                return self.ev(node.args[1], env)
            if fn in ("reversed", "range", "enumerate", "zip", "list", "tuple", "sorted", "sum", "str", "float", "set", "frozenset", "dict", "repr", "ord", "chr", "any", "all", "type", "next", "iter", "getattr", "hasattr", "print", "id", "map", "filter", "bytes", "bytearray", "slice"):
                if fn in ("list", "tuple") and len(args) == 1 and isinstance(args[0], Tup):
                    return Tup(args[0].items, "list" if fn == "list" else "tuple")
                if fn == "sum" and len(args) == 1 and isinstance(args[0], Tup):
                    try:
                        tot = Lin.k(0)
                        for it in args[0].items:
                            tot = tot + self.num(it)
                        return tot
                    except Unrecognised:
                        pass
                if fn == "enumerate" and len(args) >= 1 and isinstance(args[0], Tup):
                    start = int(args[1].const) if len(args) > 1 and isinstance(args[1], Lin) and args[1].is_int_const() else 0
                    return Tup([Tup([Lin.k(i + start), it]) for i, it in enumerate(args[0].items)], "list")
                if fn == "zip" and args and all(isinstance(a, Tup) for a in args):
                    return Tup([Tup(list(t)) for t in zip(*[a.items for a in args])], "list")
                if fn == "range" and args and all(isinstance(a, Lin) and a.is_int_const() for a in args):
                    vals = list(range(*[int(a.const) for a in args]))
                    if len(vals) <= 16:
                        return Tup([Lin.k(v) for v in vals], "list")
                if fn == "range" and all(isinstance(a, Lin) for a in args):
                    return Obj("range(" + ", ".join(vkey(a) for a in args) + ")")
                kws = [f"{kw.arg}={vkey(self.ev(kw.value, env))}" for kw in node.keywords if kw.arg is not None]
                allargs = [("*" + vkey(self.ev(a.value, env))) if isinstance(a, ast.Starred) else vkey(self.ev(a, env)) for a in node.args] if any(isinstance(a, ast.Starred) for a in node.args) else [vkey(a) for a in args]
                k = f"{fn}(" + ", ".join(allargs + kws) + ")"
                self.calls.append((k, node, fn))
                return Obj(k)
        # method call on self / inlining
        fv = None
        try:
            fv = self.ev(node.func, env)
        except Unrecognised:
            fv = None
        args = []
        for a in node.args:
            if isinstance(a, ast.Starred):
                v = self.ev(a.value, env)
                if isinstance(v, Tup):
                    args.extend(v.items)
                else:
                    args.append(Obj("*" + vkey(v)))
            else:
                args.append(self.ev(a, env))
        kwargs = {}
        for kw in node.keywords:
            if kw.arg is None:
                kwargs["**" + src(kw.value)] = self.ev(kw.value, env)
            else:
                kwargs[kw.arg] = self.ev(kw.value, env)
        if isinstance(fv, BoundMethod) and self.inline and self.depth < MAX_INLINE_DEPTH and self.repo is not None:
            c, f = self.repo.method(fv.cls, fv.name)
            if f is not None and not _is_abstract(f):
                static = any(isinstance(d, ast.Name) and d.id == "staticmethod" for d in f.decorator_list)
                return self.inline_call(f, ([] if static else [fv.selfval]) + args, kwargs, closure=None, selfcls=fv.cls)
        if isinstance(fv, Func) and self.inline and self.depth < MAX_INLINE_DEPTH:
            return self.inline_call(fv.node, args, kwargs, closure=fv.closure)
        if isinstance(node.func, ast.Name) and node.func.id in self.inline_funcs and self.depth < MAX_INLINE_DEPTH:
            return self.inline_call(self.inline_funcs[node.func.id], args, kwargs, closure=None)
        # mutation of a local literal list
        if isinstance(node.func, ast.Attribute) and isinstance(node.func.value, ast.Name) and isinstance(env.get(node.func.value.id), Tup) and env[node.func.value.id].kind == "list" and not kwargs:
            cur = env[node.func.value.id]
            if node.func.attr == "append" and len(args) == 1:
                env[node.func.value.id] = Tup(cur.items + [args[0]], "list")
                return Const(None)
            if node.func.attr == "extend" and len(args) == 1 and isinstance(args[0], Tup):
                env[node.func.value.id] = Tup(cur.items + args[0].items, "list")
                return Const(None)
        fkey = vkey(fv) if fv is not None else src(node.func)
        k = fkey + "(" + ", ".join([vkey(a) for a in args] + [(f"**{vkey(v)}" if n.startswith("**") else f"{n}={vkey(v)}") for n, v in kwargs.items()]) + ")"
        self.calls.append((k, node, fkey))
        return Obj(k)

    def inline_call(self, f: ast.FunctionDef, args, kwargs, closure=None, selfcls=None):
        a = f.args
        names = [x.arg for x in a.posonlyargs + a.args]
        env2 = dict(closure) if closure else {}
        if len(args) > len(names) and a.vararg is None:
            raise Unrecognised(f"too many arguments in inlined call of {f.name}")
        for n, v in zip(names, args):
            env2[n] = v
        if a.vararg is not None:
            env2[a.vararg.arg] = Tup(args[len(names):])
        defaults = a.defaults
        for n, d in zip(names[len(names) - len(defaults):], defaults):
            if n not in env2 or names.index(n) >= len(args):
                if n in kwargs:
                    continue
                env2[n] = self.ev(d, closure or {})
        for n, v in kwargs.items():
            env2[n] = v
        for kwa, d in zip(a.kwonlyargs, a.kw_defaults):
            if kwa.arg not in env2:
                if d is None:
                    raise Unrecognised(f"missing keyword argument {kwa.arg} in call of {f.name}")
                env2[kwa.arg] = self.ev(d, closure or {})
        for n in names:
            if n not in env2:
                raise Unrecognised(f"missing argument {n} in inlined call of {f.name}")
        self.depth += 1
        try:
            try:
                self.run(f.body, env2)
            except Stop as s:
                if s.kind == "return":
                    return s.value if s.value is not None else Const(None)
                raise
            return Const(None)
        finally:
            self.depth -= 1

    # -- statements ---------------------------------------------------------------
    def run(self, stmts, env):
        for s in stmts:
            m = getattr(self, "s_" + type(s).__name__, None)
            if m is None:
                raise Unrecognised(f"unsupported statement {type(s).__name__}: {src(s)[:80]}")
            m(s, env)

    def effect(self, kind, target, value, node, obj=None):
        self.effects.append((kind, target, value, getattr(node, "lineno", 0), "loop*" if self.loop_depth else "", obj, node))

    def s_Pass(self, s, env):
        pass

    def s_Expr(self, s, env):
        if isinstance(s.value, ast.Constant):
            return
        if isinstance(s.value, ast.Call):
            n_before = len(self.calls)
            v = self.ev(s.value, env)
            # a call made as a statement is an effect
            fv = chain(s.value.func) or src(s.value.func)
            # if inlined, effects were recorded inside
            if len(self.calls) > n_before and self.calls[-1][1] is s.value:
                k = self.calls[-1][0]
                self.effect("call", self.calls[-1][2], k, s)
            return
        if isinstance(s.value, (ast.Yield, ast.YieldFrom)):
            v = self.ev(s.value.value, env) if s.value.value is not None else Const(None)
            self.effect("yield", "", vkey(v), s, v)
            return
        self.ev(s.value, env)

    def e_Yield(self, node, env):
        v = self.ev(node.value, env) if node.value is not None else Const(None)
        self.effect("yield", "", vkey(v), node, v)
        return Const(None)

    def assign(self, target, value, env, node, kind="store"):
        if isinstance(target, ast.Name):
            env[target.id] = value
            return
        if isinstance(target, (ast.Tuple, ast.List)):
            if isinstance(value, Tup) and len(value.items) == len(target.elts):
                for t, v in zip(target.elts, value.items):
                    self.assign(t, v, env, node, kind)
                return
            for i, t in enumerate(target.elts):
                self.assign(t, Obj(f"{vkey(value)}[{i}]"), env, node, kind)
            return
        if isinstance(target, ast.Attribute):
            ch = chain(target)
            if ch is None:
                base = self.ev(target.value, env)
                ch = f"{vkey(base)}.{target.attr}"
            else:
                # canonicalise through env for the base
                base = self.ev(target.value, env)
                bk = vkey(base)
                ch2 = f"{bk}.{target.attr}"
                if ch2 != ch:
                    env[ch2] = value
                    ch = ch2
            env[ch] = value
            self.effect(kind, ch, vkey(value), node)
            return
        if isinstance(target, ast.Subscript):
            base = self.ev(target.value, env)
            if isinstance(base, Tup) and not isinstance(target.slice, ast.Slice) and isinstance(target.value, ast.Name):
                idx = self.ev(target.slice, env)
                if isinstance(idx, Lin) and idx.is_int_const() and -len(base.items) <= int(idx.const) < len(base.items):
                    items = list(base.items)
                    items[int(idx.const)] = value
                    env[target.value.id] = Tup(items, base.kind)
                    return
            if isinstance(target.slice, ast.Slice):
                k = f"{vkey(base)}[{src(target.slice)}]"
            else:
                idx = self.ev(target.slice, env)
                k = f"{vkey(base)}[{vkey(idx)}]"
                self.membership[(vkey(base), vkey(idx))] = True
            env[k] = value
            self.effect(kind, k, vkey(value), node)
            return
        if isinstance(target, ast.Starred):
            self.assign(target.value, value, env, node, kind)
            return
        raise Unrecognised(f"unsupported assignment target {src(target)}")

    def s_Assign(self, s, env):
        v = self.ev(s.value, env)
        for t in s.targets:
            self.assign(t, v, env, s)

    def s_AnnAssign(self, s, env):
        if s.value is not None:
            v = self.ev(s.value, env)
            self.assign(s.target, v, env, s)

    def s_AugAssign(self, s, env):
        cur = self.ev(_as_load(s.target), env)
        rhs = self.ev(s.value, env)
        if isinstance(s.op, (ast.Add, ast.Sub, ast.Mult)):
            try:
                a, b = self.num(cur), self.num(rhs)
                new = a + b if isinstance(s.op, ast.Add) else a - b if isinstance(s.op, ast.Sub) else a * b
            except Unrecognised:
                if isinstance(cur, Tup) and isinstance(rhs, Tup) and isinstance(s.op, ast.Add):
                    new = Tup(cur.items + rhs.items, cur.kind)
                else:
                    new = Obj(f"({vkey(cur)}{_opsym(s.op)}{vkey(rhs)})")
        else:
            new = Obj(f"({vkey(cur)}{_opsym(s.op)}{vkey(rhs)})")
        if isinstance(s.target, ast.Name):
            env[s.target.id] = new
            self.effect("auglocal", s.target.id, _opsym(s.op) + vkey(rhs), s)
        else:
            # record as augmented effect with the delta
            n_eff = len(self.effects)
            self.assign(s.target, new, env, s, kind="store")
            if len(self.effects) > n_eff:
                k, tgt, _, ln, lp, ob, nd = self.effects.pop()
                self.effects.append(("aug", tgt, _opsym(s.op) + vkey(rhs), ln, lp, ob, nd))

    def s_If(self, s, env):
        if self.truth(self.ev(s.test, env), s.test):
            self.run(s.body, env)
        else:
            self.run(s.orelse, env)

    def s_Return(self, s, env):
        raise Stop("return", self.ev(s.value, env) if s.value is not None else Const(None))

    def s_Break(self, s, env):
        raise Stop("break")

    def s_Continue(self, s, env):
        raise Stop("continue")

    def s_Raise(self, s, env):
        name = None
        if s.exc is not None:
            name = chain(s.exc.func) if isinstance(s.exc, ast.Call) else chain(s.exc)
        raise Stop("raise", Const(name))

    def s_Assert(self, s, env):
        if self.assume_asserts:
            # an assertion is an assumption of the fragment: rows on which it fails end in 'raise'
            if not self.truth(self.ev(s.test, env), s.test):
                raise Stop("raise", Const("AssertionError"))

    def s_Global(self, s, env):
        pass

    s_Nonlocal = s_Global
    s_Import = s_Global
    s_ImportFrom = s_Global

    def s_Delete(self, s, env):
        for t in s.targets:
            if isinstance(t, ast.Subscript) and not isinstance(t.slice, ast.Slice):
                try:
                    self.membership[(vkey(self.ev(t.value, env)), vkey(self.ev(t.slice, env)))] = False
                except Unrecognised:
                    pass
            self.effect("del", chain(t) or src(t), "", s)

    def s_FunctionDef(self, s, env):
        env[s.name] = Func(s.name, s, env)

    def s_With(self, s, env):
        for item in s.items:
            v = self.ev(item.context_expr, env)
            if item.optional_vars is not None:
                self.assign(item.optional_vars, Obj(f"enter({vkey(v)})"), env, s)
        self.run(s.body, env)

    def s_Try(self, s, env):
        # the try body is executed; a 'raise' of a class named by a handler transfers there.
        # Inside a try that handles KeyError, a lookup container[key] on an opaque container may
        # fail: the executor forks on 'haskey:<container>[<key>]'.
        catches_keyerror = any(h.type is not None and "KeyError" in [chain(e) for e in (h.type.elts if isinstance(h.type, ast.Tuple) else [h.type])] for h in s.handlers)
        saved = getattr(self, "keyerror_mode", False)
        self.keyerror_mode = saved or catches_keyerror
        try:
            try:
                self.run(s.body, env)
            finally:
                self.keyerror_mode = saved
        except Stop as st:
            if st.kind == "raise" and st.value is not None:
                for h in s.handlers:
                    names = []
                    if h.type is None:
                        names = [None]
                    elif isinstance(h.type, ast.Tuple):
                        names = [chain(e) for e in h.type.elts]
                    else:
                        names = [chain(h.type)]
                    if None in names or st.value.value in names or "Exception" in names or "BaseException" in names:
                        if h.name:
                            env[h.name] = Obj(f"exc:{st.value.value}")
                        self.run(h.body, env)
                        break
                else:
                    self.run(s.finalbody, env)
                    raise
            else:
                self.run(s.finalbody, env)
                raise
        else:
            self.run(s.orelse, env)
        self.run(s.finalbody, env)

    def s_For(self, s, env):
        it = self.ev(s.iter, env)
        if isinstance(it, Tup):
            for item in it.items:
                self.assign(s.target, item, env, s)
                try:
                    self.run(s.body, env)
                except Stop as st:
                    if st.kind == "break":
                        return
                    if st.kind == "continue":
                        continue
                    raise
            self.run(s.orelse, env)
            return
        if self.loop_mode == "forbid":
            raise Unrecognised(f"loop over non-literal iterable in fragment: {src(s.iter)}")
        # zero iterations or one symbolic iteration whose effects are marked as repeated
        # for a list-like opaque value "non-empty" and "truthy" are the same fact
        nonempty_atom = f"truthy:{it.k}" if isinstance(it, Obj) and not it.k.endswith(")") else f"loop-nonempty:{vkey(it)}@{getattr(s, 'lineno', 0)}"
        if isinstance(it, Obj) and re.match(r"^[A-Z_]+[\[(]", it.k):
            nonempty_atom = f"truthy:{it.k}"
        if not self.ask_bool(nonempty_atom):
            self.run(s.orelse, env)
            return
        self.assign(s.target, Obj(f"item({vkey(it)})"), env, s)
        self.loop_depth += 1
        try:
            try:
                self.run(s.body, env)
            except Stop as st:
                if st.kind not in ("break", "continue"):
                    raise
        finally:
            self.loop_depth -= 1
        # havoc: names assigned in the loop keep the value of the symbolic iteration (documented imprecision)

    def s_While(self, s, env):
        if self.loop_mode == "forbid":
            raise Unrecognised("while loop in fragment")
        if not self.truth(self.ev(s.test, env), s.test):
            self.run(s.orelse, env)
            return
        self.loop_depth += 1
        try:
            try:
                self.run(s.body, env)
            except Stop as st:
                if st.kind not in ("break", "continue"):
                    raise
        finally:
            self.loop_depth -= 1


def _is_str(v):
    return (isinstance(v, Const) and isinstance(v.value, (str, bytes)))


def _opsym(op):
    return {ast.Add: "+", ast.Sub: "-", ast.Mult: "*", ast.Div: "/", ast.FloorDiv: "//", ast.Mod: "%", ast.BitOr: "|", ast.BitAnd: "&", ast.BitXor: "^", ast.LShift: "<<", ast.RShift: ">>", ast.Pow: "**", ast.MatMult: "@"}[type(op)]


def _as_load(t):
    import copy

    n = copy.copy(t)
    n.ctx = ast.Load()
    return n


def _is_abstract(f: ast.FunctionDef):
    return any((isinstance(d, ast.Name) and d.id == "abstractmethod") or (isinstance(d, ast.Attribute) and d.attr == "abstractmethod") for d in f.decorator_list)


# ---------------------------------------------------------------------------
# exploration driver
# ---------------------------------------------------------------------------
def explore(repo, stmts, env, *, integer=True, self_cls=None, feasibility=True, max_rows=MAX_ROWS, executor_cls=None, initial=None, stop_when=None, **kw):
    """
    Return the decision tree of ``stmts`` as a list of Rows.  ``env`` maps names (and
    attribute chains such as 'self.x') to abstract values; it is copied per row.
    """
    rows = []
    stack = [(dict(initial) if initial else {}, [])]
    n_runs = 0
    import time as _time

    deadline = _time.time() + EXPLORE_BUDGET_S
    while stack:
        val, order = stack.pop()
        n_runs += 1
        if n_runs > max_rows * 4 or (n_runs % 64 == 0 and _time.time() > deadline):
            raise Unrecognised("decision tree too large")
        ex = (executor_cls or Executor)(repo, val, integer=integer, self_cls=self_cls, **kw)
        e = dict(env)
        try:
            try:
                ex.run(stmts, e)
                exit_ = ("fall", None)
            except Stop as s:
                exit_ = (s.kind, s.value)
        except NeedAtom as na:
            options = (-1, 0, 1) if na.kind == "sign" else (False, True)
            for o in reversed(options):
                v2 = dict(val)
                v2[na.key] = o
                if feasibility and na.kind == "sign" and not feasible(v2):
                    continue
                stack.append((v2, order + [na.key]))
            continue
        rows.append(Row(val, ex.effects, exit_, e, ex.calls, ex.order))
        if stop_when is not None and stop_when(rows[-1]):
            return rows
        if len(rows) > max_rows:
            raise Unrecognised("decision tree too large")
    return rows


def lookup(rows, total: dict):
    """Find the unique row whose partial valuation agrees with the total valuation ``total``.
    Atoms of the row that ``total`` does not define make the row a candidate only if
    ``total`` is silent about them; more than one candidate => the caller's role map is
    incomplete (Unrecognised)."""
    cands = []
    for r in rows:
        ok = True
        for k, v in r.valuation.items():
            if k in total and total[k] != v:
                ok = False
                break
        if ok:
            cands.append(r)
    return cands


# -- feasibility of sign valuations ------------------------------------------
_feas_cache: dict = {}


def _parse_key(key: str):
    """sign:<lin key>  ->  Lin  (re-parsed from the canonical text is avoided: we keep a registry)."""
    return _LIN_REGISTRY.get(key)


_LIN_REGISTRY: dict = {}


def register_lin(key, lin):
    _LIN_REGISTRY[key] = lin


def feasible(val: dict, box=3, max_atoms=5) -> bool:
    """Is there an integer model (in a small box) of all sign constraints of ``val``?
    Constraints are split into connected components (shared atoms); each component is
    decided separately and cached.  Components with more atoms than ``max_atoms`` are
    assumed feasible (keeps rows, never drops one)."""
    cons = []
    for k, s in val.items():
        if k.startswith("sign:"):
            l = _LIN_REGISTRY.get(k)
            if l is None:
                continue
            cons.append((k, l, s))
    if len(cons) <= 1:
        return True
    # connected components
    comps = []
    for c in cons:
        atoms = set(c[1].terms)
        merged = [c]
        rest = []
        for comp_atoms, comp in comps:
            if comp_atoms & atoms:
                atoms |= comp_atoms
                merged.extend(comp)
            else:
                rest.append((comp_atoms, comp))
        rest.append((atoms, merged))
        comps = rest
    for atoms, comp in comps:
        if len(comp) <= 1:
            continue
        if len(atoms) > max_atoms:
            continue
        ck = tuple(sorted((k, s) for k, _, s in comp))
        r = _feas_cache.get(ck)
        if r is None:
            r = _component_feasible(sorted(atoms), comp, box)
            _feas_cache[ck] = r
        if not r:
            return False
    return True


def _component_feasible(atoms, comp, box):
    from math import lcm

    idx = {a: i for i, a in enumerate(atoms)}
    rows = []
    for _, l, s in comp:
        den = 1
        for c in list(l.terms.values()) + [l.const]:
            den = lcm(den, c.denominator)
        coefs = [0] * len(atoms)
        for a, c in l.terms.items():
            coefs[idx[a]] = int(c * den)
        rows.append((coefs, int(l.const * den), s))
    n = len(atoms)
    cands, big = _candidates(n, [(coefs, k) for coefs, k, _ in rows], box)
    for combo in itertools.product(*cands):
        ok = True
        for coefs, k, s in rows:
            v = k
            for i in range(n):
                v += coefs[i] * combo[i]
            if ((v > 0) - (v < 0)) != s:
                ok = False
                break
        if ok:
            return True
    # constants far outside the search box and several atoms: a model may exist that the search did not try -
    # keep the row (a row is only ever dropped when infeasibility is certain within the explored values)
    return bool(big and n > 1)


def _candidates(n, rows, box):
    """Values tried per atom: the small box, plus the neighbourhood of every threshold  -k/c  a constraint puts on
    the atom (so that  x <= 10000  has models on both sides)."""
    vals = [set(range(-box, box + 1)) for _ in range(n)]
    big = False
    for coefs, k in rows:
        if abs(k) > box:
            big = True
            for i, c in enumerate(coefs):
                if c:
                    t = -k // c
                    vals[i] |= {t - 1, t, t + 1}
    return [sorted(v) for v in vals], big


# make ask_sign register forms so that feasibility can see them
_orig_ask_sign = Executor.ask_sign


def _ask_sign(self, d: Lin):
    if not d.is_const():
        p, _ = d.normalised_sign_form()
        register_lin("sign:" + p.key(), p)
    return _orig_ask_sign(self, d)


Executor.ask_sign = _ask_sign


def entails(valuation: dict, op, a: Lin, b: Lin, box=4, integer=True):
    """
    Does the (partial) sign valuation force  a <op> b ?  Returns True (forced), False (a
    counter-model in a small integer box exists: the claim does not follow) or None (cannot
    be judged: more atoms than the search bound).  Used by rules to ask whether a fact the
    property needs was established on a path, without requiring that the code tested it in
    exactly that syntactic form.
    """
    d = a - b
    if d.is_const():
        v = d.const
        return {ast.Lt: v < 0, ast.LtE: v <= 0, ast.Gt: v > 0, ast.GtE: v >= 0, ast.Eq: v == 0, ast.NotEq: v != 0}[type(op)]
    cons = []
    for k, sgn in valuation.items():
        if k.startswith("sign:"):
            l = _LIN_REGISTRY.get(k)
            if l is not None:
                cons.append((l, sgn))
    # only the constraints connected (through shared atoms) with the claim can matter; the others are satisfiable
    # on their own (the valuation is feasible), so they are dropped
    rel = set(d.terms)
    grew = True
    while grew:
        grew = False
        for l, _ in cons:
            t = set(l.terms)
            if t & rel and not t <= rel:
                rel |= t
                grew = True
    cons = [(l, sg) for l, sg in cons if set(l.terms) & rel]
    atoms = sorted(rel)
    if len(atoms) > 6:
        return None
    from math import lcm

    def ints(l):
        den = 1
        for c in list(l.terms.values()) + [l.const]:
            den = lcm(den, c.denominator)
        return {x: int(c * den) for x, c in l.terms.items()}, int(l.const * den)

    icons = [(ints(l), sgn) for l, sgn in cons]
    dt, dc = ints(d)
    neg = {ast.Lt: lambda v: v >= 0, ast.LtE: lambda v: v > 0, ast.Gt: lambda v: v <= 0, ast.GtE: lambda v: v < 0, ast.Eq: lambda v: v != 0, ast.NotEq: lambda v: v == 0}[type(op)]
    idx = {a_: i for i, a_ in enumerate(atoms)}
    crow = lambda terms, const: ([terms.get(a_, 0) for a_ in atoms], const)
    cands, _big = _candidates(len(atoms), [crow(t, c) for (t, c), _ in icons] + [crow(dt, dc)], box)
    for combo in itertools.product(*cands):
        m = dict(zip(atoms, combo))
        ok = True
        for (terms, const), sgn in icons:
            v = const + sum(c * m[x] for x, c in terms.items())
            if ((v > 0) - (v < 0)) != sgn:
                ok = False
                break
        if not ok:
            continue
        v = dc + sum(c * m[x] for x, c in dt.items())
        if neg(v):
            return False
    return True
