"""What each check claims (used to generate MANIFEST.json; tools/gen_manifest.py)."""

LEVEL_NOTE = (
    "Trusted base: CPython's ast module, Cython's own parser (front end of the four .pyx files), this repository-specific analyser (sa/), "
    "the frozen facts about dnaio/xopen listed in the evidence file. Every rule is a necessary condition of the property, decided on the source text; "
    "none is sufficient, and nothing numeric (scores, edit distances, sums over reads), no OS schedule and no library behaviour is decided."
)

CLAIMS = {
    "C03": {
        "technique": "static analysis: who-may-write sweep over record fields, interval/length algebra on linear forms (A4), exhaustive action dispatch (A6), abstract execution of remainder() on literal match lists",
        "text": "Decides, for every path of the modifier code, that bases/qualities of a record are only ever written on a private copy by the mask/lowercase/zero-cap code, that the written strings keep the length and only change the documented positions, that the three encodings of a match's kept interval (trimmed / trim_slice / remainder_interval), removed_sequence_length, retained interval and remainder() agree as linear forms, that every --action value has a branch in both cutters operating on the original read, and that trimming modifiers slice the record (not one string). Not decided: that match coordinates lie inside the read (runtime values). Also: no modifier indexes into a possibly empty read; --quality-base reaches every modifier interpreting quality characters (C03.X). Every attribute the action helpers read on a match exists on every concrete match class (named exception: crop with a linked adapter, documented as unsupported).",
        "design_ref": "DESIGN.md section 5, C03",
    },
    "C04": {
        "technique": "static analysis: path-exhaustive abstract execution of every step's __call__ (effect counting per path, A1), decision table of _collect_step (A3), name-table agreement predicates/sinks vs report.FILTERS (A5), builder interpreter for 'last step is a sink' (A2)",
        "text": "Decides on every path of every pipeline step that a consumed read is accounted exactly once (filtered counter or write+length statistics of the same records), that counters are collected (interfaces, _collect_step table), that every reportable filter name is in report.FILTERS, that both process_reads loops count each record once and stop at the first None, that per-chunk/per-worker collection is not duplicated, and (builder interpreter) that every accepted configuration ends in exactly one consuming sink. Not decided: equality with the bytes in the output files. Also: tallies fed by several modifiers are accumulated by the collector; worker statistics are merged additively (C04.X).",
        "design_ref": "DESIGN.md section 5, C04",
    },
    "C05": {
        "technique": "static analysis: truth tables of the pair-filter combinators and their dispatch (A3), mate-index consistency of call sites and zip columns (A8), path-exhaustive check of paired writes/returns (A1), builder interpreter for the 'both' override and LEN:LEN2 routing (A2), decision table of the best-pair selection",
        "text": "Decides the pair-filter truth tables and dispatch (any/both/first, one-sided bounds first), that objects carrying mate index i are applied to mate-i arguments, that every paired step writes/returns (read1, read2) in order, that exactly the untrimmed filters get 'both' when adapters are given for one side only, LEN:LEN2 routing, and the --pair-adapters selection table / untouched-on-miss. Not decided: record-by-record identity of output files.",
        "design_ref": "DESIGN.md section 5, C05",
    },
    "C09": {
        "technique": "static analysis: decision tables (A3) of the best-of loop, the linked-adapter required/optional logic and its defaults; abstract execution of one trimming round and of the times==1 specialisation; dataflow of per-side ingredients in the linked-adapter factory (A8)",
        "text": "Decides the replace-iff table of MultipleAdapters.match_to (higher score, then fewer errors, first wins), that adapters are tried in the given order unless an index is really built, the shape of one --times round (search what the previous round left, stop at the first miss, append once) and the equivalence of the specialised routine, the LinkedAdapter result table over (found, required) and its search regions, the -a/-g required defaults with explicit override, and that a read counts as trimmed iff matches were applied. Not decided: score arithmetic. Also: LinkedMatch.score/.errors are the sums over the parts found; the regrouped adapter list is a partition of the given adapters.",
        "design_ref": "DESIGN.md section 5, C09",
    },
    "C10": {
        "technique": "static analysis: builder interpreter (A2) - abstract execution of make_pipeline_from_args and its generator helpers block by block with forking on option tests; pairwise stage-order check over all co-occurring slots; routing shapes; option table read from the argparse declarations (A5)",
        "text": "Decides, over every accepted option combination at once, that the modifiers list is assembled in the documented stage order (stage = the option that switches a slot on), that lower-case options build (X, None), upper-case (None, X) and shared options two distinct objects (R2 from its override), that numeric options are tested with 'is None', that the builder reads only the parsed namespace, and that both pipelines apply modifiers + steps sequentially. Not decided: what each modifier does. Also (C10.R5): the single-end and paired-end renamers fill {cut_prefix}/{cut_suffix}/{adapter_name}/{match_sequence} by the same function of the modification info.",
        "design_ref": "DESIGN.md section 5, C10",
    },
    "C11": {
        "technique": "static analysis: builder interpreter (A2) for the order and wiring of filter steps; decision tables (A3) of every predicate's test() over the sign of (measure - threshold); filter-step consume/redirect table",
        "text": "Decides that filter steps are appended in the documented order with at most one trimmed/untrimmed filter and the sink last, that each predicate's test() has exactly the documented strict comparison (including the empty-read and fraction cases of --max-n, --max-aer), that each predicate is built from its own option and each redirect file is attached to its own filter, and that a filter that applies consumes, counts and redirects iff it has a writer. Not decided: the numeric value of expected errors (C14). Also: every predicate that decodes quality characters receives the configured --quality-base; only quality-based filters depend on the input format.",
        "design_ref": "DESIGN.md section 5, C11",
    },
    "C16": {
        "technique": "static analysis: decision table (A3) of the orientation choice over (score difference sign, reverse matches empty?) for both complementer classes, path-exhaustive check of the consequences of the choice (A1), builder facts for the rc suffix",
        "text": "Decides that the reverse complement / swapped pair is used iff it has a match and a strictly higher summed score, that both orientations are trimmed independently with the right cutter on the right read, and that counter, is_rc flag, name suffix, returned records and the registration of matches/statistics follow the choice on every path; ' rc' suffix iff --rename absent; {rc} and the info file use is_rc. Not decided: the scores themselves. A decision that compares other score sums than the two totals is reported as a violation.",
        "design_ref": "DESIGN.md section 5, C16",
    },
}

CLAIMS.update({
    "C06": {
        "technique": "static analysis: protocol-frame extraction by abstract execution of both ends of each pipe (A9), multiplicity/ordering of registered output files vs proxy chunks, OrderedChunkWriter release rule, merge-completeness and additivity of every __iadd__ (taint from other.<attr> to self.<attr>), constructor/pickle signature agreement (A8)",
        "text": "Decides the parts of 'multi-core = single-core' that are visible in the code shape: sender and receiver agree on frame layout and sentinels on the three pipes, each open_* call registers as many files as its proxy drains chunks and both lists are append-only and iterated in order, the ordered writer releases index k only after k-1 starting at the reader's first index, every statistics merge adds every tally from the same field of the other object, pickled objects restore exactly their constructor arguments, and the output/input format decisions are independent of the runner. NOT decided: the schedule quantifier itself (interleavings of reader, workers and main; needs a model checker), byte identity of files, liveness. The merge rule also requires that a tally is added somewhere (adoption when empty alone is accepted only for flags checked for equality) and that no merge is skipped depending on the merged value.",
        "design_ref": "DESIGN.md section 5, C06",
    },
    "C19": {
        "technique": "static analysis: path-exhaustive abstract execution of the writer factories comparing the format information reaching the proxied and the direct writer (A7), dataflow of the input format on the serial and the worker path, decision tables for --fasta and interleaving, builder interpreter for writer layouts",
        "text": "Decides that the FASTA/FASTQ decision for every output is made once from the path string (compression suffix stripped) / --fasta / has_qualities() before any file object exists and reaches both writer kinds unchanged, that --fasta only acts on standard output, that both runners parse the input with the content-detected format through the same opener, and the interleaving flags of inputs and of every paired writer. Not decided: codec round trips, multi-member gzip, FASTA/FASTQ record equivalence (library and runtime). Also: the name-derived formats of a writer's paths are combined as a set and applied iff exactly one distinct format.",
        "design_ref": "DESIGN.md section 5, C19",
    },
    "C20": {
        "technique": "static analysis: path-exhaustive abstract execution of the five registration sites and of every add_match body (A1/A7), slice algebra for the adjacent base (A4), exhaustiveness of _collect_modifier over tally-keeping modifier classes (A6), sibling agreement of the ErrorRanges call sites",
        "text": "Decides that matches are registered exactly once after the orientation/pair decision on the statistics object of their own adapter and on the right info, that every add_match tallies errors[removed length][errors] (+ adjacent base as a one-base slice, '' when unknown) on the right end, that every modifier class keeping tallies is collected into the slot of its mate, and that text and JSON report build the allowed-error table from effective_length and max_error_rate. Not decided: the allowed-errors arithmetic itself (a numeric defect is recorded in DESIGN.md). Also: error_counts of a histogram row is dense (position = number of errors); the per-adapter orientation tally is updated once per registered match.",
        "design_ref": "DESIGN.md section 5, C20",
    },
})

CLAIMS.update({
    "C12": {
        "technique": "static analysis of error discipline: structure of the try/except in both process run() methods and in main(), abstract execution of every broad handler body (re-raise / exit non-zero / forward sentinel on every path), first-matching-handler resolution per input-error class, protocol-frame rules shared with C06",
        "text": "Decides that all work in the worker and reader processes lies inside an 'except Exception' that forwards (-2, (exception, traceback)) on every outgoing connection, that the end token is only sent after a complete read, that sentinels are tested before payload is read and that the main process terminates the children before re-raising, that the first handler in main() catching each input-error class logs the error and exits non-zero (2 for command-line errors), that no broad handler in the package swallows an exception, and that two inputs go through one paired reader. NOT decided: termination under every schedule and fault position (liveness, needs a model checker), completeness of the records written before the error, the library's behaviour on truncated streams. Also: forwarding handlers read only variables bound before their try (otherwise the handler itself fails and nothing is forwarded).",
        "design_ref": "DESIGN.md section 5, C12",
    },
    "C15": {
        "technique": "static analysis: path-exhaustive abstract execution of the three _open_writers and __call__ methods (A1), decision table of the demultiplex-mode detection (A3), builder interpreter for the placement and wiring of the demultiplexer step (A2)",
        "text": "Decides that a writer is opened unconditionally for every adapter name / name combination with the right template per mate, the untrimmed target rule, that reads are routed by the name of the LAST match (of R1; of R1 and R2 in that order), the mode-detection table, the accounting of the three demultiplexers, and that a demultiplexer is the only consuming step of its configurations and is wired to its own options. Not decided: multiset equality with the un-demultiplexed output. Also: a pair is dropped only on a writer lookup miss for its key; open_raise_limit retries exactly on EMFILE and re-raises other errors.",
        "design_ref": "DESIGN.md section 5, C15",
    },
    "C17": {
        "technique": "static analysis: path-exhaustive abstract execution of the info writer and of both get_info_records (A1), slice algebra of the printed fields (A4), builder interpreter for the position of the writer and for the set of pre-adapter modifiers that remove a prefix (A2)",
        "text": "Decides that the info writer returns every read and prints exactly one -1 row without match / one row per info record otherwise, that it precedes every consuming step, that the three sequence and quality fields are [0,a) [a,b) [b,end) of the record passed in with a, b the printed coordinates, the ;1/;2 rows of linked matches and the once-per-match advance, and that no modifier running before adapter trimming removes a prefix without the writer accounting for it (two known findings: -u N>0 and a 5' quality cutoff). Not decided: agreement with the aligner's error count. The frame rule also covers suffix removal before matching under --revcomp (three further known findings, same root cause). Paired --revcomp: the swap must also reach info.original_read (sixth known finding).",
        "design_ref": "DESIGN.md section 5, C17",
    },
    "C18": {
        "technique": "static analysis: option table read from argparse with constant folding of the type lambdas (A5), decision tables (A3) of the class table, restriction parser, validation rules and ellipsis normalisation, dataflow of parameter-dict copies for precedence (A8), who-raises-what sweep against the handler tuple",
        "text": "Decides the option->type table, the (type, restriction, rightmost)->class table and the restriction parser, that exactly the documented invalid combinations are rejected (e.g. o= only for anchored adapters), the abbreviation graph and the fate of every canonical parameter, that each precedence level is a copy of the lower level updated by the higher one, the anchoring characters of the file: forms, the divisor of absolute error numbers, and that every exception class raised on the specification path is converted to a command-line error. Brace expansion x{n} is decided as a four-state machine (C18.R8); anchored classes require the whole adapter; 'anywhere' is consumed on every path. Every flag parameter (anywhere, rightmost, required/optional) is consumed or rejected on every route from a merged parameter dictionary to an adapter constructor; the anchoring character of file^:/file$: is attached to the sequence part of a record. Not decided: the grammar x options cross product as strings.",
        "design_ref": "DESIGN.md section 5, C18",
    },
})

CLAIMS.update({
    "C01": {
        "technique": "static analysis of the aligner's shape: flag/placement table agreement (A5), abstract execution of the two candidate-recording sites with entailment of the acceptance test (A1/A3), linear algebra of the N-discount window (A4), decision table of the DP cell's three-way minimum, Hamming comparer tables, result-tuple/constructor agreement (A8), IUPAC table against the standard",
        "text": "Decides necessary conditions of 'every reported match is genuine and in tolerance': every adapter class is searched with the end-skip flags of its documented placement rule; a candidate is recorded only on paths where length >= min_overlap and cost <= N-discounted length * rate were established; the N window equals the aligned adapter interval; n_counts are prefix sums; the DP cell takes a minimum with a consistent predecessor; the Hamming comparers' acceptance and coordinates; the six result components reach the match under their own names (incl. the rightmost mirror); the IUPAC/ACGT encodings and their selection. NOT decided: that the DP yields the true edit distance and an optimal score for every read, and that origin-derived coordinates lie inside the read. Also: anchored adapter classes force min_overlap = len(sequence); shared constructs (index coordinates/tolerance/N fallback, pickled aligners) are re-reported as C01.X.",
        "design_ref": "DESIGN.md section 5, C01",
    },
    "C02": {
        "technique": "static analysis: abstract execution of the band set-up of Aligner.locate over all end-skip flag combinations with entailment of the band inequalities (A3/A4), decision tables of the shrink loop and the early exit, structure of the candidate scans",
        "text": "Decides the band/limit conditions without which occurrences are lost for particular read lengths: the column range contains min(n, m+k) / max(0, n-m-k) and is only restricted when the corresponding read end is fixed, the Ukkonen limit starts at >= min(m, k+1) and only shrinks over cells with cost > k, the only early exit is an exact match starting inside the read after the best match was updated, last-row and last-column candidates are considered exactly under the documented flags, and the rightmost 5' adapter searches reversed strings. NOT decided: completeness of the search, leftmost/rightmost optimality, 'exact copies never survive'. Also (C02.X): the prefilter (coverage, inputs, windows, no overlapping window skipped), the index lookups and pickled aligners/prefilters do not lose admissible occurrences.",
        "design_ref": "DESIGN.md section 5, C02",
    },
    "C07": {
        "technique": "static analysis: coverage table aligner flags -> requested k-mer search sets per adapter class (A5/A2), argument/role agreement between prefilter and aligner (A7/A8), abstract execution of one error tier of the search-set builder, symbolic bounds of the raw-pointer scan with a small-model feasibility check (A10)",
        "text": "Decides necessary conditions of 'the prefilter never changes the result': every placement the aligner flags admit is covered by a requested search set (and reads shorter than an anywhere adapter bypass the filter), filter and aligner get the same wildcard flags, error rate, overlap and string, each error tier emits max_errors+1 chunks and advances the minimum length, end windows are widened by the error allowance when indels are on, the scan never leaves the read, and k-mers fit the 64-bit word with a fallback to the always-true finder. NOT decided: soundness of the pigeonhole argument as a whole for every read. Also: no search entry whose window overlaps the read is skipped (small-model check on every skipping path). The short-read bypass bound covers inserted bases (len + int(len*rate) with indels); prefilter character masks equal the aligner's comparison tables; no k-mer is dropped by the redundancy filter.",
        "design_ref": "DESIGN.md section 5, C07",
    },
    "C08": {
        "technique": "static analysis: decision tables (A3) of the index insertion step (ambiguity bookkeeping), of the multi-length look-up loop (length bound, best-of, continuation on a miss, N path) and of the eligibility test; constructor-argument agreement for the match factories (A8); KeyError paths are explored",
        "text": "Decides that index matches have in-read coordinates (only lengths that fit are looked up; [0,length) / [len-length,len) factories), that a string is ambiguous afterwards iff its best match count is attained twice (strictly better clears), the best-of-lengths selection with continuation on a miss, each adapter's own error allowance for its neighbourhood, the eligibility table, and that affixes containing N are re-aligned. NOT decided: completeness of the neighbourhood enumerators; the 'exactly one adapter within tolerance' clause. Also: a re-aligned N lookup is accepted only if it spans the whole affix; regrouping keeps every given adapter exactly once.",
        "design_ref": "DESIGN.md section 5, C08",
    },
    "C13": {
        "technique": "static analysis: decision tables (A3) of the three running-sum scans in qualtrim.pyx (stop rule, strict-maximum rule, recorded position) via abstract execution with entailment, linear algebra of counter vs returned slice (A4), parameter-role agreement from the option to the C routine (A8/A2)",
        "text": "Decides the tie and stop rules and recorded positions of the 5', 3' and NextSeq scans (sum += cutoff - (q - base); stop iff sum < 0; optimum iff sum > best), the scan directions and cutoffs per end, the (0,0) rule, that the base only shifts the scale, that reported = removed for both trimmers, and that cutoffs and --quality-base reach the right parameters. NOT decided: that the scan computes the stated arg-min for every quality string.",
        "design_ref": "DESIGN.md section 5, C13",
    },
    "C14": {
        "technique": "static analysis: a C-subset front end for expected_errors.h (table values against 10^(-i/10); abstract execution of the unrolled and the tail loop), decision tables (A3) of both poly-A scan branches with the mirror map, regex ASTs of the N-end patterns, linear algebra of the poly-A tallies",
        "text": "Decides the 94 table values, that every quality value is range-checked on its own before indexing and each offset is read exactly once per stride with a correct tail loop and a complete final sum, the poly-A/poly-T scan rules (+1/-2, errors*5 <= tail length, strict optimum, length-3 rule) and that the two branches mirror each other, the ^N+/N+$ patterns and the kept slice, the case-insensitive N count, and reported = removed for poly-A. NOT decided: the arg-max claim for every tail.",
        "design_ref": "DESIGN.md section 5, C14",
    },
})

PENDING_REASON = "no static rule for this property is registered in this revision of /verif (see DESIGN.md section 7 for what is out of reach)"
